"""C02 demo 1: an otherwise constant collection literal that carries *evaluated*
metadata, placed before a sibling argument that is a compound form.

    (vector ^{:k (t 1)} [10 20] (if (t 2) 3 4))

Source order demands the trace [1 2]: the metadata map of the first argument is
evaluated as part of that argument, before the test of the `if` in the second one.
"""

import importlib
import sys

from basilisp import main as basilisp_main

basilisp_main.init()
importlib.import_module("basilisp.core")

from basilisp.lang import compiler, reader, runtime  # noqa: E402
from basilisp.lang import symbol as sym  # noqa: E402

NS_NAME = "c02-demo-one"

PRELUDE = """
(def trace (python/list))
(def t (fn* [x] (.append trace x) x))
"""

# (program, expected trace) -- every program resets the trace first
CASES = [
    # control: plain call before a compound sibling (ordering temporaries in place)
    ("(vector (t 1) (if (t 2) 3 4))", [1, 2]),
    # control: keyword / number literals before a compound sibling
    ("(vector :a 5 (t 1) (let* [x (t 2)] x))", [1, 2]),
    # control: effect inside the *elements* of a nested literal
    ("(vector [(t 1) 20] (if (t 2) 3 4))", [1, 2]),
    # vector literal with evaluated metadata, then `if`
    ("(vector ^{:k (t 1)} [10 20] (if (t 2) 3 4))", [1, 2]),
    # set literal with evaluated metadata, then `let*`
    ("(vector ^{:k (t 1)} #{10 20} (let* [x (t 2)] x))", [1, 2]),
    # map literal with evaluated metadata as a call argument, then `try`
    ("((fn* [a b] [a b]) ^{:k (t 1)} {:a 10} (try (t 2) (finally (t 3))))", [1, 2, 3]),
    # same inside a collection literal rather than a call
    ("[^{:k (t 1)} [10] (do (t 2) (t 3))]", [1, 2, 3]),
    # interop call arguments
    ('(.format "{}{}" ^{:k (t 1)} [10] (if (t 2) 3 4))', [1, 2]),
]


def main() -> int:
    ns_sym = sym.symbol(NS_NAME)
    ns = runtime.Namespace.get_or_create(ns_sym)
    ns.refer_all(runtime.Namespace.get(runtime.CORE_NS_SYM))
    failures = []
    with runtime.ns_bindings(NS_NAME) as ns:
        sys.modules[ns.module.__name__] = ns.module
        ctx = compiler.CompilerContext("<c02-demo-1>")

        def run(code: str):
            last = None
            for form in reader.read_str(code, resolver=runtime.resolve_alias):
                last = compiler.compile_and_exec_form(form, ctx, ns)
            return last

        run(PRELUDE)
        trace = ns.find(sym.symbol("trace")).value
        for code, expected in CASES:
            del trace[:]
            # evaluate inside a function body as well as at the top level
            for wrapped in (code, f"((fn* [] {code}))"):
                del trace[:]
                run(wrapped)
                got = list(trace)
                status = "ok " if got == expected else "BAD"
                print(f"{status} {wrapped}\n      expected {expected} got {got}")
                if got != expected:
                    failures.append((wrapped, expected, got))

    if failures:
        print("PROPERTY BROKEN")
        return 1
    print("PROPERTY HOLDS")
    return 0


if __name__ == "__main__":
    sys.exit(main())
