"""C01 demonstration: `recur` rebinds all loop locals simultaneously.

Every argument of a `recur` is evaluated with the loop locals of the *current*
iteration; only then are the locals rebound, all at once.  That must also hold when an
argument does not mention a loop local itself but calls a closure (created in the loop
body) which reads one.

Each program below is evaluated
  * at top level,
  * inside a fn body,
  * as a let init and
  * as a call argument,
and its value is compared with the value prescribed by the evaluation rules (worked out
by hand, and cross-checked against the same iteration written with a fn as the recur
target, which goes through the trampoline instead of the `while True` loop).

Prints PROPERTY HOLDS and exits 0 if all values agree, else PROPERTY BROKEN and exits 1.
"""

import importlib
import sys

from basilisp import main as basilisp_main
from basilisp.lang import compiler, reader, runtime
from basilisp.lang import symbol as sym

basilisp_main.init()
importlib.import_module("basilisp.core")

# (loop program, the same iteration with a fn as recur target, expected printed value)
CASES = [
    (
        # closure bound by let in the loop body, called in the 2nd recur argument
        "(loop [i 0 acc 0]"
        "  (let [f (fn [] i)]"
        "    (if (< i 3) (recur (inc i) (+ acc (f))) acc)))",
        "((fn [i acc]"
        "   (let [f (fn [] i)]"
        "     (if (< i 3) (recur (inc i) (+ acc (f))) acc))) 0 0)",
        "3",
    ),
    (
        # immediately invoked closure in the 2nd recur argument
        "(loop [i 0 acc []]"
        "  (if (< i 3) (recur (inc i) (conj acc ((fn [] i)))) acc))",
        "((fn [i acc]"
        "   (if (< i 3) (recur (inc i) (conj acc ((fn [] i)))) acc)) 0 [])",
        "[0 1 2]",
    ),
    (
        # letfn closure reading two loop locals, called in the 3rd recur argument
        "(loop [a 1 b 10 out []]"
        "  (letfn [(snap [] [a b])]"
        "    (if (< a 4) (recur (inc a) (inc b) (conj out (snap))) out)))",
        "((fn [a b out]"
        "   (letfn [(snap [] [a b])]"
        "     (if (< a 4) (recur (inc a) (inc b) (conj out (snap))) out))) 1 10 [])",
        "[[1 10] [2 11] [3 12]]",
    ),
    (
        # the same with the bare special forms and names that need munging
        "(loop* [n-1 0 sum! 0]"
        "  (let* [cur* (fn* [] n-1)]"
        "    (if (< n-1 4) (recur (inc n-1) (+ sum! (cur*))) sum!)))",
        "((fn* [n-1 sum!]"
        "   (let* [cur* (fn* [] n-1)]"
        "     (if (< n-1 4) (recur (inc n-1) (+ sum! (cur*))) sum!))) 0 0)",
        "6",
    ),
    # Controls: arguments that name the loop locals directly.
    (
        "(loop [a 1 b 2 n 0] (if (< n 3) (recur b a (inc n)) [a b]))",
        "((fn [a b n] (if (< n 3) (recur b a (inc n)) [a b])) 1 2 0)",
        "[2 1]",
    ),
    (
        "(loop [i 0 acc 0] (if (< i 4) (recur (inc i) (+ acc i)) acc))",
        "((fn [i acc] (if (< i 4) (recur (inc i) (+ acc i)) acc)) 0 0)",
        "6",
    ),
]

CONTEXTS = [
    ("top level", "{}"),
    ("fn body", "((fn [] {}))"),
    ("let init", "(let [v {}] v)"),
    ("call argument", "(identity {})"),
    ("if test", "(if {} (first [{}]) :falsey)"),
]

_counter = [0]


def evaluate(src):
    """Evaluate `src` in a fresh namespace; return the printed value or the name of the
    exception class."""
    _counter[0] += 1
    ns_name = f"c01-demo-one-{_counter[0]}"
    ns = runtime.Namespace.get_or_create(sym.symbol(ns_name))
    ns.refer_all(runtime.Namespace.get(runtime.CORE_NS_SYM))
    with runtime.ns_bindings(ns_name) as ns:
        sys.modules[ns.module.__name__] = ns.module
        try:
            ctx = compiler.CompilerContext("<c01 demo 1>")
            last = None
            for form in reader.read_str(src, runtime.resolve_alias):
                last = compiler.compile_and_exec_form(form, ctx, ns)
            return runtime.lrepr(last)
        except Exception as e:  # noqa: BLE001
            return f"<{type(e).__name__}>"
        finally:
            del sys.modules[ns.module.__name__]


def main() -> int:
    failures = []
    for loop_src, fn_src, expected in CASES:
        for ctx_name, template in CONTEXTS:
            for kind, src in (("loop", loop_src), ("fn", fn_src)):
                got = evaluate(template.replace("{}", src))
                if got != expected:
                    failures.append(
                        f"[{ctx_name}, recur target: {kind}] expected {expected}, "
                        f"got {got}: {' '.join(src.split())}"
                    )

    if failures:
        for f in failures:
            print("  " + f)
        print("PROPERTY BROKEN")
        return 1
    print("PROPERTY HOLDS")
    return 0


if __name__ == "__main__":
    sys.exit(main())
