"""C19 demo 2: EDN write-string / read-string inversion on strings.

Every string of length <= 3 over a small alphabet of escape relevant characters
(quote, backslash, named escapes, other control characters, and a few ordinary
characters including hex digits and the letter u) is written with
basilisp.edn/write-string and read back

  * with basilisp.edn/read-string (the EDN reader), and
  * with the Lisp reader (basilisp.lang.reader.read_str).

Both must give back a str equal to the original, also when the string is nested in a
vector.

Prints PROPERTY HOLDS / exit 0 if all round trips are exact, PROPERTY BROKEN / exit 1
otherwise.
"""

import importlib
import itertools
import sys

from basilisp import main as basilisp_main

basilisp_main.init()
importlib.import_module("basilisp.core")
edn = importlib.import_module("basilisp.edn")

from basilisp.lang import reader as lreader  # noqa: E402
from basilisp.lang import vector as lvec  # noqa: E402

ALPHABET = ['"', "\\", "\n", "\t", "\a", "\x00", "\x1b", "\x7f", " ", "u", "g", "c", "7"]


def lisp_read(text):
    return next(iter(lreader.read_str(text)))


def attempt(f, text):
    try:
        return ("ok", f(text))
    except Exception as e:  # noqa: BLE001
        return ("raised", f"{type(e).__name__}: {e}".splitlines()[0][:100])


failures = []
checked = 0
for n in range(0, 4):
    for chars in itertools.product(ALPHABET, repeat=n):
        s = "".join(chars)
        for label, value, unwrap in (
            ("bare", s, lambda v: v),
            ("in vector", lvec.vector([s, 1]), lambda v: v[0] if len(v) == 2 else v),
        ):
            if label == "in vector" and n == 3:
                continue  # keep the run short; nesting is covered up to length 2
            text = edn.write_string(value)
            for rname, rfn in (("edn reader", edn.read_string), ("lisp reader", lisp_read)):
                checked += 1
                status, back = attempt(rfn, text)
                if status == "ok":
                    try:
                        back = unwrap(back)
                    except Exception:  # noqa: BLE001
                        pass
                if status != "ok" or type(back) is not str or back != s:
                    failures.append(
                        f"{s!r} ({label}) written as {text!r}: {rname} -> {status} {back!r}"
                    )

print(f"checked {checked} round trips")
if failures:
    for f in failures[:12]:
        print("  " + f)
    print(f"{len(failures)} violations")
    print("PROPERTY BROKEN")
    sys.exit(1)
print("PROPERTY HOLDS")
sys.exit(0)
