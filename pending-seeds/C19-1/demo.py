"""C19 demo 1: bencode framing at every cut position of a message stream.

For a few fixed message streams (top level messages of every bencode kind: byte
strings, ints, lists, dicts) decode-all is run on every prefix of the stream.  The
result must be exactly the messages that are complete in that prefix, in order, plus
the untouched remaining bytes.  Expected framing is computed by an independent
reference (message end offsets of a reference encoder).

Prints PROPERTY HOLDS / exit 0 if every cut of every stream is framed correctly,
PROPERTY BROKEN / exit 1 otherwise.
"""

import importlib
import sys

from basilisp import main as basilisp_main

basilisp_main.init()
importlib.import_module("basilisp.core")
bc = importlib.import_module("basilisp.contrib.bencode")

from basilisp.lang import keyword as kw  # noqa: E402
from basilisp.lang import map as lmap  # noqa: E402
from basilisp.lang import vector as lvec  # noqa: E402


def ref_encode(o) -> bytes:
    if isinstance(o, bytes):
        return str(len(o)).encode() + b":" + o
    if isinstance(o, int):
        return b"i" + str(o).encode() + b"e"
    if isinstance(o, list):
        return b"l" + b"".join(ref_encode(e) for e in o) + b"e"
    if isinstance(o, dict):
        return (
            b"d"
            + b"".join(ref_encode(k) + ref_encode(v) for k, v in sorted(o.items()))
            + b"e"
        )
    raise TypeError(o)


def to_lisp(o):
    if isinstance(o, list):
        return lvec.vector([to_lisp(e) for e in o])
    if isinstance(o, dict):
        return lmap.map({k.decode(): to_lisp(v) for k, v in o.items()})
    return o


def to_py(o):
    if isinstance(o, lvec.PersistentVector):
        return [to_py(e) for e in o]
    if isinstance(o, lmap.PersistentMap):
        return {to_py(k): to_py(v) for k, v in o.items()}
    return o


STREAMS = [
    # nREPL-like dict messages only
    [{b"id": 1, b"op": b"clone"}, {b"id": 2, b"op": b"eval", b"code": b"(+ 1 2)"}],
    # mixed top level kinds
    [b"spam", 42, [b"a", 1, []], {b"k": [b"v", {b"n": -7}]}, b"", 0],
    # top level byte strings, some with multi digit length prefixes
    [b"x", b"0123456789ab", [b"0123456789"], b"e", b"4:i1e"],
    [7, b"done"],
]

OPTS = [
    ("default opts", lmap.map({})),
    (
        ":string-fn decode",
        lmap.map({kw.keyword("string-fn"): lambda b: b.decode("utf-8")}),
    ),
]


def decode_strs(o):
    """What :string-fn #(.decode % "utf-8") makes of a reference value."""
    if isinstance(o, bytes):
        return o.decode("utf-8")
    if isinstance(o, list):
        return [decode_strs(e) for e in o]
    if isinstance(o, dict):
        return {k: decode_strs(v) for k, v in o.items()}
    return o


failures = []
checked = 0
for msgs in STREAMS:
    encoded = [ref_encode(m) for m in msgs]
    for m, e in zip(msgs, encoded):
        got = bytes(bc.encode(to_lisp(m)))
        if got != e:
            failures.append(f"encode {m!r}: {got!r} != reference {e!r}")
    stream = b"".join(encoded)
    ends = []
    pos = 0
    for e in encoded:
        pos += len(e)
        ends.append(pos)
    for opt_name, opts in OPTS:
        for cut in range(len(stream) + 1):
            prefix = stream[:cut]
            n_complete = sum(1 for end in ends if end <= cut)
            consumed = ends[n_complete - 1] if n_complete else 0
            exp_items = msgs[:n_complete]
            if opt_name != "default opts":
                exp_items = [decode_strs(m) for m in exp_items]
            exp_rest = prefix[consumed:] or None
            res = bc.decode_all(prefix, opts)
            got_items, got_rest = to_py(res[0]), (res[1] or None)  # b"" and nil both mean: nothing left
            checked += 1
            if got_items != exp_items or got_rest != exp_rest:
                failures.append(
                    f"[{opt_name}] decode-all {prefix!r}: got {got_items!r} rest {got_rest!r}; "
                    f"expected {exp_items!r} rest {exp_rest!r}"
                )

print(f"checked {checked} cuts")
if failures:
    for f in failures[:12]:
        print("  " + f)
    print(f"{len(failures)} violations")
    print("PROPERTY BROKEN")
    sys.exit(1)
print("PROPERTY HOLDS")
sys.exit(0)
