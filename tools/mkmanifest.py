#!/venv/bin/python
"""Regenerate MANIFEST.json from the property modules that exist under props/ (each module
carries its own MANIFEST dict) and validate it against the schema."""
import importlib, json, os, sys
HERE = os.path.dirname(os.path.dirname(os.path.abspath(__file__)))
sys.path.insert(0, HERE)
props = [json.loads(l)["id"] for l in open(os.path.join(HERE, "properties.jsonl"))]
checks, na = [], []
PENDING = {}
for pid in props:
    path = os.path.join(HERE, "props", pid.lower() + ".py")
    meta = None
    if os.path.exists(path):
        src = open(path).read()
        ns = {}
        # MANIFEST = {...} literal block at module level
        import ast
        tree = ast.parse(src)
        for node in tree.body:
            if isinstance(node, ast.Assign) and getattr(node.targets[0], "id", None) == "MANIFEST":
                meta = ast.literal_eval(node.value)
    if meta is None:
        na.append({"property_id": pid, "reason": PENDING.get(pid, "check not built yet in this round; the technique applies (see DESIGN.md section 5) and the property is not claimed until its check is quiet on the unchanged tree")})
        continue
    checks.append({
        "property_id": pid,
        "quick_cmd": f"./check run {pid} --tier quick",
        "thorough_cmd": f"./check run {pid} --tier thorough",
        "evidence_file": f"evidence/{pid}.json",
        "replay_cmd_template": f"./check replay {pid} {{path}}",
        "engine": meta.get("engine", "hypothesis+enumeration"),
        "level_claimed": {"category": meta.get("category", "exploration"), "text": meta["text"],
                          "design_ref": meta.get("design_ref", f"DESIGN.md section 5 {pid}")},
        "level_note": meta["note"],
        "technique": meta["technique"],
    })
man = {
    "version": 1,
    "setup_cmd": "./setup.sh",
    "hooks": {"guard": "BASILISP_VERIF", "enable": "no source hooks are needed: all observation is done from outside (module attributes, sys.settrace, harness callbacks interned as Vars)",
              "baseline_off_cmd": "./tools/baseline.py", "source_commits": [], "add_only": True},
    "engines": [
        {"name": "check", "path": "check", "serves_properties": [c["property_id"] for c in checks],
         "kind_free_text": "runner: builds from /repo working tree, initialises basilisp once, forks 16 shards, Hypothesis (seeded by VERIF_SEED) + bounded exhaustive enumeration against explicit oracles, replay files, evidence"},
    ],
    "checks": checks,
    "not_applicable": na,
    "notes": "property-based testing / fuzzing only; see DESIGN.md. Genuine defects found are repaired by 'fix:' commits in /repo or listed in known-findings.txt.",
}
json.dump(man, open(os.path.join(HERE, "MANIFEST.json"), "w"), indent=1)
try:
    import jsonschema
    jsonschema.validate(man, json.load(open("/root/.vp/MANIFEST.schema.json")))
    print("MANIFEST valid;", len(checks), "checks;", len(na), "not claimed")
except ImportError:
    print("jsonschema missing; not validated")
