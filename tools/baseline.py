#!/venv/bin/python
"""Run the repository's pinned baseline (guard OFF) and compare with /root/.vp/BASELINE.json:
every test in stable_pass must pass. Exit 0 iff so."""
import json, os, subprocess, sys, tempfile
import xml.etree.ElementTree as ET
base = json.load(open("/root/.vp/BASELINE.json"))
out = tempfile.mkdtemp(prefix="vbase")
xml = os.path.join(out, "junit.xml")
env = dict(os.environ)
env.pop("BASILISP_VERIF", None)
repo = os.environ.get("VERIF_REPO", "/repo")
if repo != "/repo":
    env["PYTHONPATH"] = os.path.join(repo, "src")
cmd = f"cd {repo} && /venv/bin/python -m pytest -ra -q -p no:cacheprovider --timeout=900 --continue-on-collection-errors --junitxml={xml} " + " ".join(sys.argv[1:])
r = subprocess.run(cmd, shell=True, env=env, stdout=subprocess.PIPE, stderr=subprocess.STDOUT)
log = r.stdout.decode(errors="replace")
passed = set()
for tc in ET.parse(xml).getroot().iter("testcase"):
    bad = any(ch.tag in ("failure", "error", "skipped") for ch in tc)
    if not bad:
        passed.add(f"{tc.get('classname')}::{tc.get('name')}")
want = set(base["stable_pass"])
missing = sorted(want - passed)
print(f"baseline: {len(want)} stable, {len(passed)} passed now, {len(missing)} stable tests not passing")
for m in missing[:40]:
    print("  NOT PASSING:", m)
if missing:
    print(log[-3000:])
import shutil; shutil.rmtree(out, ignore_errors=True)
sys.exit(1 if missing else 0)
