#!/opt/veriftools/pyvenv/bin/python
"""validate MANIFEST.json and evidence/*.json against the schemas (tooling venv has jsonschema)"""
import json, glob, sys, jsonschema
ok = True
man = json.load(open("MANIFEST.json"))
jsonschema.validate(man, json.load(open("/root/.vp/MANIFEST.schema.json")))
print("MANIFEST ok:", len(man["checks"]), "checks,", len(man.get("not_applicable", [])), "n/a")
sch = json.load(open("/root/.vp/EVIDENCE.schema.json"))
for f in sorted(glob.glob("evidence/*.json")):
    try:
        jsonschema.validate(json.load(open(f)), sch)
        print("ok", f)
    except Exception as e:
        ok = False
        print("INVALID", f, str(e)[:300])
sys.exit(0 if ok else 1)
