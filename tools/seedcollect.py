#!/venv/bin/python
"""Collect one confirmed seeded change into /verif/seeded/<id>-<n>/.

usage: tools/seedcollect.py <src-dir> <id>-<n> <check> <caught|missed|caught-after-strengthening> "<note>" [seedtest-log]
Copies patch.diff and demo.py, and writes meta.json = the author's description + my confirmation + the verdict."""
import json
import os
import shutil
import sys

VERIF = os.path.dirname(os.path.dirname(os.path.abspath(__file__)))


def main():
    src, name, check, verdict, note = sys.argv[1:6]
    log = sys.argv[6] if len(sys.argv) > 6 else None
    dst = os.path.join(VERIF, "seeded", name)
    os.makedirs(dst, exist_ok=True)
    shutil.copy(os.path.join(src, "patch.diff"), os.path.join(dst, "patch.diff"))
    if os.path.exists(os.path.join(src, "demo.py")):
        shutil.copy(os.path.join(src, "demo.py"), os.path.join(dst, "demo.py"))
    try:
        meta = json.load(open(os.path.join(src, "meta.json")))
    except (OSError, ValueError):
        meta = {}
    lines = []
    if log and os.path.exists(log):
        lines = [l.strip() for l in open(log) if "violation sig" in l or l.startswith("[C")][:6]
    out = {
        "property": check,
        "title": meta.get("title"),
        "description": meta.get("description"),
        "needs": meta.get("needs"),
        "clause": meta.get("clause"),
        "author_tests": meta.get("tests"),
        "origin": "independent sub-agent given only the property text and a scratch worktree",
        "apply": f"git -C /repo apply seeded/{name}/patch.diff   (undo: git -C /repo checkout -- .)",
        "demonstration": f"PYTHONPATH=<tree>/src /venv/bin/python seeded/{name}/demo.py   (exit 0 'PROPERTY HOLDS' on the clean tree, exit 1 'PROPERTY BROKEN' with the change)",
        "verdict": verdict,
        "check_output": lines,
        "note": note,
    }
    with open(os.path.join(dst, "meta.json"), "w") as fh:
        json.dump(out, fh, indent=1, sort_keys=True)
    print("collected", dst)


if __name__ == "__main__":
    main()
