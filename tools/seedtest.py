#!/venv/bin/python
"""Run checks against a seeded change: apply <dir>/patch.diff to /repo, run the quick tier of the given
checks, undo the change straight afterwards (also on error), and report whether each check caught it.

usage: tools/seedtest.py <seed-dir> <Cxx>[,<Cyy>...] [--tier quick|thorough]
Never commits anything to /repo; refuses to start when /repo has uncommitted changes."""
import json
import os
import subprocess
import sys
import time

VERIF = os.path.dirname(os.path.dirname(os.path.abspath(__file__)))


def sh(cmd, **kw):
    return subprocess.run(cmd, shell=True, stdout=subprocess.PIPE, stderr=subprocess.STDOUT, text=True, **kw)


def main():
    seed_dir = os.path.abspath(sys.argv[1])
    checks = sys.argv[2].split(",")
    tier = sys.argv[sys.argv.index("--tier") + 1] if "--tier" in sys.argv else "quick"
    patch = os.path.join(seed_dir, "patch.diff")
    dirty = sh("git -C /repo status --porcelain --untracked-files=no").stdout.strip()
    if dirty:
        print("refusing: /repo has uncommitted changes:\n" + dirty)
        return 2
    r = sh(f"git -C /repo apply {patch}")
    if r.returncode != 0:
        print("patch does not apply:\n" + r.stdout)
        return 2
    results = {}
    try:
        for c in checks:
            t0 = time.time()
            r = sh(f"./check run {c} --tier {tier}", cwd=VERIF)
            viol = [l for l in r.stdout.splitlines() if l.startswith("VIOLATION") or l.startswith("--- violation") or l.startswith("HARNESS")]
            results[c] = {"exit": r.returncode, "wall_s": round(time.time() - t0, 1), "lines": viol[:8]}
            print(f"[{c}] exit={r.returncode} wall={results[c]['wall_s']}s")
            for l in viol[:8]:
                print("   ", l[:300])
            if r.returncode not in (0, 1):
                print(r.stdout[-1500:])
    finally:
        sh("git -C /repo checkout -- .")
        # evidence written while the seeded change was applied does not describe the real tree
        sh("git checkout -- evidence", cwd=VERIF)
        # bring the native module back in line with the restored sources
        sh("/venv/bin/python -c \"import sys; sys.path.insert(0, '%s'); from vlib import boot; boot.ensure_native()\"" % VERIF)
        left = sh("git -C /repo status --porcelain --untracked-files=no").stdout.strip()
        if left:
            print("WARNING: /repo not clean after undo:\n" + left)
    print(json.dumps(results))
    return 0


if __name__ == "__main__":
    sys.exit(main())
