#!/bin/sh
# scratch git worktree of /repo HEAD under /tmp for a seeded-change experiment (never inside /repo or /verif)
# usage: tools/mkwt.sh <name>    -> /tmp/wt-<name>   (remove with: git -C /repo worktree remove --force /tmp/wt-<name>)
set -e
d=/tmp/wt-$1
git -C /repo worktree add --detach "$d" HEAD >/dev/null 2>&1
cp /repo/src/basilisp/_lang.abi3.so "$d/src/basilisp/_lang.abi3.so"
echo "$d"
