#!/venv/bin/python
"""Confirm one seeded change in a scratch worktree of /repo under /tmp (removed afterwards):
  1. the patch applies to HEAD, basilisp still starts;
  2. the author's demo exits 0 ('PROPERTY HOLDS') on the clean tree and 1 ('PROPERTY BROKEN') with the change;
  3. the pinned test suite (BASELINE stable_pass) still passes with the change.
usage: tools/seedconfirm.py <seed-dir> <name> [--no-suite]      -> /tmp/seedruns/confirm-<name>.json"""
import json
import os
import subprocess
import sys

VERIF = os.path.dirname(os.path.dirname(os.path.abspath(__file__)))


def sh(cmd, **kw):
    return subprocess.run(cmd, shell=True, stdout=subprocess.PIPE, stderr=subprocess.STDOUT, text=True, **kw)


def main():
    seed, name = os.path.abspath(sys.argv[1]), sys.argv[2]
    suite = "--no-suite" not in sys.argv
    wt = f"/tmp/wtc-{name}"
    out = {"name": name}
    sh(f"git -C /repo worktree remove --force {wt}")
    r = sh(f"git -C /repo worktree add --detach {wt} HEAD")
    try:
        sh(f"cp /repo/src/basilisp/_lang.abi3.so {wt}/src/basilisp/_lang.abi3.so")
        env = dict(os.environ, PYTHONPATH=f"{wt}/src", PATH="/venv/bin:" + os.environ.get("PATH", ""))
        demo = os.path.join(seed, "demo.py")
        if os.path.exists(demo):
            r = sh(f"/venv/bin/python {demo}", env=env, cwd=wt)
            out["demo_clean"] = {"exit": r.returncode, "tail": r.stdout[-300:]}
        r = sh(f"git -C {wt} apply {seed}/patch.diff")
        out["applies"] = r.returncode == 0
        if r.returncode != 0:
            out["apply_error"] = r.stdout[-500:]
            return out
        if "rust/" in open(os.path.join(seed, "patch.diff")).read():
            r = sh("cargo build --release --offline", cwd=f"{wt}/rust", env=dict(env, CARGO_NET_OFFLINE="true"))
            out["rust_build"] = r.returncode
            sh(f"cp {wt}/rust/target/release/libbasilisp_native.so {wt}/src/basilisp/_lang.abi3.so")
        if os.path.exists(demo):
            r = sh(f"/venv/bin/python {demo}", env=env, cwd=wt)
            out["demo_mutant"] = {"exit": r.returncode, "tail": r.stdout[-300:]}
        if suite:
            r = sh(f"{VERIF}/tools/baseline.py", env=dict(os.environ, VERIF_REPO=wt, PATH="/venv/bin:" + os.environ.get("PATH", "")))
            out["suite"] = {"exit": r.returncode, "summary": r.stdout.splitlines()[0] if r.stdout else "", "not_passing": [l.strip() for l in r.stdout.splitlines() if "NOT PASSING" in l][:10]}
        return out
    finally:
        sh(f"git -C /repo worktree remove --force {wt}")
        sh(f"rm -rf {wt}")
        with open(f"/tmp/seedruns/confirm-{name}.json", "w") as fh:
            json.dump(out, fh, indent=1)
        print(json.dumps(out)[:600])


if __name__ == "__main__":
    main()
