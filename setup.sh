#!/bin/sh
# Offline setup: make sure hypothesis is importable by /venv/bin/python and build the native
# extension from /repo/rust once. Everything else is plain Python run from this checkout.
set -e
cd "$(dirname "$0")"
mkdir -p .work .deps evidence replays
if ! /venv/bin/python -c "import hypothesis" 2>/dev/null; then
  /venv/bin/pip install --no-index --find-links /opt/veriftools/wheels --target .deps hypothesis >/dev/null
fi
if ! PYTHONPATH=.deps /venv/bin/python -c "import atheris" 2>/dev/null; then
  /venv/bin/pip install --no-index --find-links /opt/veriftools/wheels --target .deps atheris >/dev/null 2>&1 || echo "setup: atheris not installable; coverage-guided tier will be skipped"
fi
/venv/bin/python -c "import sys; sys.path.insert(0,'.'); from vlib import boot; boot.prepare_env(); print('native:', boot.ensure_native(verbose=True))"
echo "setup ok"
