"""C07 — sequence functions and their transducers agree with each other and the model.

Pipelines of depth <= 3 from the 18 listed functions, applied through the five application forms
(lazy call form, into [], sequence, transduce conj, eduction) to every input sequence up to a
length bound over {nil false 0 1 2 :a} (exhaustive, depth 1) and to Hypothesis-generated
pipelines/inputs (depth 2-3, longer, infinite).  Oracle: plain-Python list reference of every
function; counted pulls from an instrumented input (early termination); completion count."""
from __future__ import annotations

import itertools

from hypothesis import strategies as st

from vlib import boot, hyp
from vlib.harness import Recorder, Violation, canon
from props import c01

ID = "C07"
MANIFEST = {
    "technique": "exhaustive inputs (length<=4/6 over a 6-value universe) x all depth-1 stages x 5 application forms + Hypothesis pipelines of depth 2-3 and infinite inputs; Python list reference model, counted pulls on an instrumented input, counted completion calls",
    "text": "bounded-exhaustive and random differential testing against an executable reference: every listed sequence function (with small integer/predicate parameters) is applied through its lazy form, into, sequence, transduce and eduction to every input up to the length bound (including nil/false elements and the empty input) and to random longer and infinite inputs; compositions via comp are compared with the composition of the references; inputs are counting iterables so that 'stops consuming' and 'completion exactly once' are counted verdicts, never time-outs.",
    "note": "trusts the Python reference definitions; predicates/functions are total on the element universe; transduce on an empty input returns init without calling completion (documented) and is not flagged",
    "engine": "E8 sequence models",
}
LEVEL = "exploration"
NSHARDS = 16
RULE = ("depth-1 stages x all inputs of length<=4 (quick) / <=6 (thorough) over {nil false 0 1 2 :a} x 5 application forms x "
        "5 input representations; Hypothesis pipelines depth<=3 on random/infinite inputs. Non-trivial = input contains nil/false "
        "or is empty/infinite, or depth>=2, or the form is not the lazy one; distinct by (pipeline, input, form, representation).")
ASSUMPTIONS = [
    "Python list reference definitions of the 18 functions are the oracle",
    "(transduce xf f init []) does not call completion (documented in the transduce docstring)",
    "pull bound: once a take / take-while stage has terminated the process (streaming semantics of the reference), no single iteration over the input may go further (the lazy call form may look one element ahead)",
    "on an infinite input a case is only checked when a take/take-while stage provably fires within the first 30 elements; otherwise not terminating is correct",
]

UNIVERSE = [None, False, 0, 1, 2, "KW"]   # "KW" stands for :a
FORMS = ["lazy", "into", "sequence", "transduce", "eduction"]
REPS = ["vector", "list", "lazyseq", "pylist", "counting"]


# ---- parameter tables: name -> (lisp source, python function) --------------------------------

def kwa():
    return S()["kw"].keyword("a")


PREDS = {
    "nil?": ("nil?", lambda x: x is None),
    "false?": ("false?", lambda x: x is False),
    "keyword?": ("keyword?", lambda x: x == "KW"),
    "number?": ("number?", lambda x: isinstance(x, int) and not isinstance(x, bool)),
    "identity": ("identity", lambda x: x),
    "ctrue": ("(constantly true)", lambda x: True),
    "cnil": ("(constantly nil)", lambda x: None),
    "eq1": ("(fn [x] (= x 1))", lambda x: x == 1 and x is not True and not isinstance(x, list)),
    "some?": ("some?", lambda x: x is not None),
}
MAPFNS = {
    "identity": ("identity", lambda x: x),
    "vector": ("vector", lambda x: [x]),
    "nil?": ("nil?", lambda x: x is None),
    "ck": ("(constantly :a)", lambda x: "KW"),
    "cnil": ("(constantly nil)", lambda x: None),
    "cfalse": ("(constantly false)", lambda x: False),
}
IDXFNS = {
    "vector": ("vector", lambda i, x: [i, x]),
    "second": ("(fn [i x] x)", lambda i, x: x),
    "even-x": ("(fn [i x] (if (even? i) x nil))", lambda i, x: x if i % 2 == 0 else None),
    "index": ("(fn [i x] i)", lambda i, x: i),
    "false-odd": ("(fn [i x] (if (odd? i) false x))", lambda i, x: False if i % 2 else x),
}
CATFNS = {
    "dup": ("(fn [x] [x x])", lambda x: [x, x]),
    "nil-or-one": ("(fn [x] (if (nil? x) nil [x]))", lambda x: [] if x is None else [x]),
    "empty": ("(fn [x] [])", lambda x: []),
    "vector": ("vector", lambda x: [x]),
    "list-nil": ("(fn [x] (list nil x))", lambda x: [None, x]),
}
SEPS = {"nil": ("nil", None), "0": ("0", 0), "kw": (":a", "KW")}


def truthy(v):
    return not (v is None or v is False)


def same_elem(a, b):
    if isinstance(a, bool) or isinstance(b, bool) or a is None or b is None:
        return a is b
    if isinstance(a, list) and isinstance(b, list):
        return len(a) == len(b) and all(same_elem(x, y) for x, y in zip(a, b))
    if isinstance(a, list) or isinstance(b, list):
        return False
    return a == b


# stage = [name, param]; reference on python lists ---------------------------------------------

def ref_stage(stage, xs):
    n, p = stage
    if n == "map":
        return [MAPFNS[p][1](x) for x in xs]
    if n == "filter":
        return [x for x in xs if truthy(PREDS[p][1](x))]
    if n == "remove":
        return [x for x in xs if not truthy(PREDS[p][1](x))]
    if n == "keep":
        return [y for y in (MAPFNS[p][1](x) for x in xs) if y is not None]
    if n == "keep-indexed":
        return [y for y in (IDXFNS[p][1](i, x) for i, x in enumerate(xs)) if y is not None]
    if n == "map-indexed":
        return [IDXFNS[p][1](i, x) for i, x in enumerate(xs)]
    if n == "take":
        return xs[:max(p, 0)]
    if n == "take-while":
        out = []
        for x in xs:
            if not truthy(PREDS[p][1](x)):
                break
            out.append(x)
        return out
    if n == "take-nth":
        return xs[::p]
    if n == "drop":
        return xs[max(p, 0):]
    if n == "drop-while":
        i = 0
        while i < len(xs) and truthy(PREDS[p][1](xs[i])):
            i += 1
        return xs[i:]
    if n == "interpose":
        out = []
        for i, x in enumerate(xs):
            if i:
                out.append(SEPS[p][1])
            out.append(x)
        return out
    if n == "partition-all":
        return [xs[i:i + p] for i in range(0, len(xs), p)]
    if n == "partition-by":
        out, cur, key = [], [], object()
        for x in xs:
            k = MAPFNS[p][1](x) if p in MAPFNS else PREDS[p][1](x)
            if cur and not same_elem(k, key):
                out.append(cur)
                cur = []
            key = k
            cur.append(x)
        if cur:
            out.append(cur)
        return out
    if n == "distinct":
        out = []
        for x in xs:
            if not any(same_elem(x, y) for y in out):
                out.append(x)
        return out
    if n == "dedupe":
        out = []
        for x in xs:
            if not out or not same_elem(out[-1], x):
                out.append(x)
        return out
    if n == "mapcat":
        out = []
        for x in xs:
            out.extend(CATFNS[p][1](x))
        return out
    if n == "cat":
        out = []
        for x in xs:
            out.extend(x if x is not None else [])
        return out
    raise ValueError(stage)


def ref_pipeline(pipe, xs, pyeq=False):
    for stg in pipe:
        xs = ref_distinct_pyeq(xs) if (pyeq and stg[0] == "distinct") else ref_stage(stg, xs)
    return xs


def ref_distinct_pyeq(xs):
    """defect model of the known finding F-05c: membership by Python hash/== (False == 0, True == 1)"""
    out = []
    for x in xs:
        try:
            dup = any((x == y and not isinstance(x, list)) or same_elem(x, y) for y in out)
        except Exception:  # noqa
            dup = False
        if not dup:
            out.append(x)
    return out


def termination_fires(pipe, prefix):
    """on an infinite input: does some take / take-while stage provably terminate the process within
    the prefix? (otherwise running forever is the correct behaviour)"""
    xs = list(prefix)
    for stg in pipe:
        n, p = stg
        if n == "take" and len(xs) >= max(p, 1):
            return True
        if n == "take-while" and any(not truthy(PREDS[p][1](x)) for x in xs):
            return True
        xs = ref_stage(stg, xs)
        if len(xs) < 8:
            return False   # the stages so far starve the rest of the pipeline
    return False


def stage_src(stage, xform=True, coll=None):
    n, p = stage
    if n in ("map", "keep"):
        a = MAPFNS[p][0]
    elif n in ("filter", "remove", "take-while", "drop-while"):
        a = PREDS[p][0]
    elif n in ("keep-indexed", "map-indexed"):
        a = IDXFNS[p][0]
    elif n in ("take", "take-nth", "drop", "partition-all"):
        a = str(p)
    elif n == "interpose":
        a = SEPS[p][0]
    elif n == "partition-by":
        a = MAPFNS[p][0] if p in MAPFNS else PREDS[p][0]
    elif n == "mapcat":
        a = CATFNS[p][0]
    else:
        a = None
    if xform:
        if n == "cat":
            return "cat"
        return f"({n}{' ' + a if a is not None else ''})"
    if n == "cat":
        return f"(apply concat {coll})"
    return f"({n}{' ' + a if a is not None else ''} {coll})"


def all_stages():
    out = []
    for f in MAPFNS:
        out += [["map", f], ["keep", f]]
    for p in PREDS:
        out += [["filter", p], ["remove", p], ["take-while", p], ["drop-while", p]]
    for f in IDXFNS:
        out += [["keep-indexed", f], ["map-indexed", f]]
    for k in (0, 1, 2, 3):
        out += [["take", k], ["drop", k]]
    for k in (1, 2, 3):
        out += [["take-nth", k], ["partition-all", k]]
    for s_ in SEPS:
        out.append(["interpose", s_])
    for f in ("identity", "nil?", "number?", "eq1"):
        out.append(["partition-by", f])
    out += [["distinct", None], ["dedupe", None]]
    for f in CATFNS:
        out.append(["mapcat", f])
    return out


def produces_colls(stage):
    n, p = stage
    return n in ("partition-all", "partition-by") or (n in ("map",) and p == "vector") or \
        (n in ("map-indexed", "keep-indexed") and p == "vector")


def terminating(pipe):
    return any(s[0] in ("take", "take-while") for s in pipe)


_S = {}
_PIPE_CACHE = {}


class PullBudgetExceeded(Exception):
    pass


class Counting:
    """iterable over `items` (finite list) or an infinite generator factory; counts pulls"""

    def __init__(self, items=None, inf=None, budget=400):
        self.items, self.inf, self.budget = items, inf, budget
        self.pulls = 0     # the largest number of elements pulled by any single iteration
        self.iterations = 0

    def __iter__(self):
        # the input is a re-iterable collection: each (seq coll) starts a new iteration, so the
        # consumption that matters is how far any one iteration went
        self.iterations += 1
        src = iter(self.items) if self.items is not None else self.inf()
        mine = 0
        for x in src:
            mine += 1
            self.pulls = max(self.pulls, mine)
            if mine > self.budget:
                raise PullBudgetExceeded()
            yield x


def S():
    if _S:
        return _S
    from basilisp.lang import keyword as kw, vector as vec, list as llist, runtime, symbol as sym
    from basilisp.lang.interfaces import ISeq, ISequential, IPersistentVector
    ses = boot.Session()
    d = dict(ses=ses, kw=kw, vec=vec, llist=llist, runtime=runtime, ISeq=ISeq, ISequential=ISequential,
             IPersistentVector=IPersistentVector)
    d["cnt"] = {"n": 0}
    ses.intern("bump!", lambda: d["cnt"].__setitem__("n", d["cnt"]["n"] + 1))
    ses.eval("(def sentinel (fn [rf] (fn ([] (rf)) ([r] (bump!) (rf r)) ([r x] (rf r x)))))")
    ses.eval("(def mklazy (fn mk [xs] (lazy-seq (when (seq xs) (cons (first xs) (mk (rest xs)))))))")
    d["mklazy"] = ses.eval("mklazy")
    _S.update(d)
    return _S


def to_lisp(x):
    s = S()
    if x == "KW":
        return s["kw"].keyword("a")
    if isinstance(x, list):
        return s["vec"].vector([to_lisp(e) for e in x])
    return x


def from_lisp(v):
    s = S()
    if isinstance(v, s["kw"].Keyword):
        return "KW" if v.name == "a" and v.ns is None else ":" + v.name
    if isinstance(v, (s["ISeq"], s["ISequential"])):
        return [from_lisp(e) for e in v]
    if isinstance(v, (list, tuple)):
        return [from_lisp(e) for e in v]
    return v


def compiled(pipe):
    key = canon(pipe)
    c = _PIPE_CACHE.get(key)
    if c is None:
        ses = S()["ses"]
        xf = "(comp " + " ".join(stage_src(st_) for st_ in pipe) + " sentinel)"
        lazy = "coll"
        for st_ in pipe:
            lazy = stage_src(st_, xform=False, coll=lazy)
        c = {
            "lazy": ses.eval(f"(fn [coll] {lazy})"),
            "into": ses.eval(f"(fn [coll] (into [] {xf} coll))"),
            "sequence": ses.eval(f"(fn [coll] (sequence {xf} coll))"),
            "transduce": ses.eval(f"(fn [coll] (transduce {xf} conj coll))"),
            "eduction": ses.eval(f"(fn [coll] (eduction {xf} coll))"),
        }
        if len(_PIPE_CACHE) > 3000:
            _PIPE_CACHE.clear()
        _PIPE_CACHE[key] = c
    return c


def make_input(rep, items, inf=None):
    s = S()
    lis = [to_lisp(x) for x in items] if items is not None else None
    if rep == "counting" or inf is not None:
        c = Counting(lis, (lambda: (to_lisp(x) for x in inf())) if inf else None)
        return c, c
    if rep == "vector":
        return s["vec"].vector(lis), None
    if rep == "list":
        return s["llist"].list(lis), None
    if rep == "lazyseq":
        return s["mklazy"](s["vec"].vector(lis)), None
    if rep == "pylist":
        return list(lis), None
    raise ValueError(rep)


INF_INPUTS = {
    "range": lambda: itertools.count(0),
    "cycle-nil-1": lambda: itertools.cycle([None, 1]),
    "repeat-false": lambda: itertools.repeat(False),
    "cycle-012a": lambda: itertools.cycle([0, 1, 2, "KW"]),
    "iterate-not": lambda: itertools.cycle([True, False]),
}


def pipe_src(pipe):
    return " ".join(stage_src(s_) for s_ in pipe)


def check_case(rec, pipe, items, form, rep, inf_name=None):
    """one (pipeline, input, application form, input representation)"""
    s = S()
    case = {"kind": "pipe", "pipe": pipe, "items": items, "form": form, "rep": rep, "inf": inf_name}
    if inf_name:
        prefix = list(itertools.islice(INF_INPUTS[inf_name](), 60))
        want = ref_pipeline(pipe, prefix)
        if not termination_fires(pipe, prefix[:30]) or not same_elem(want, ref_pipeline(pipe, prefix[:30])):
            rec.count("infinite_input_without_provable_termination_skipped")
            return
        items_for_L = prefix
    else:
        want = ref_pipeline(pipe, list(items))
        items_for_L = list(items)
    nontriv = (items is not None and (len(items) == 0 or any(x is None or x is False for x in items))) or inf_name is not None \
        or len(pipe) >= 2 or form != "lazy"
    rec.case(canon(case), nontrivial=nontriv, cls=[f"form/{form}", f"stage/{pipe[0][0]}"] + (["infinite-input"] if inf_name else []),
             sample={"xform": pipe_src(pipe), "input": items if not inf_name else inf_name, "form": form, "rep": rep}, sub=form)
    fn = compiled(pipe)[form]
    coll, counter = make_input(rep, items, INF_INPUTS[inf_name] if inf_name else None)
    s["cnt"]["n"] = 0
    try:
        out = fn(coll)
        got = from_lisp(list(out) if not isinstance(out, s["IPersistentVector"]) else out)
    except PullBudgetExceeded:
        raise Violation(f"never-stops-consuming:{form}", case,
                        f"({form}) {pipe_src(pipe)} kept pulling from an infinite input beyond the counted budget; the reference output {want} is complete after a finite prefix")
    if not same_elem(got, want):
        fid = None
        if any(s_[0] == "distinct" for s_ in pipe) and same_elem(got, ref_pipeline(pipe, items_for_L, pyeq=True)):
            fid = "F-05c"
        raise Violation(f"wrong-elements:{form}:{stage_sig(pipe)}", case,
                        f"{pipe_src(pipe)} on {items if not inf_name else inf_name}: {form} gives {got}; reference {want}", finding=fid)
    if form != "lazy":
        n = s["cnt"]["n"]
        empty_input = items is not None and len(items) == 0
        if not empty_input and n != 1:
            raise Violation(f"completion-count:{form}", case, f"completion ran {n} times (expected exactly once) for {pipe_src(pipe)} on {items if not inf_name else inf_name}")
        if empty_input and n > 1:
            raise Violation(f"completion-count:{form}", case, f"completion ran {n} times on an empty input")
    if counter is not None and terminating(pipe):
        L = fire_point(pipe, items_for_L)
        if L is not None:
            slack = 1 if form == "lazy" else 0   # a lazy seq over an iterator may look one element ahead
            if counter.pulls > L + slack:
                raise Violation(f"pulls-beyond-termination:{form}", case,
                                f"{pipe_src(pipe)} via {form}: one iteration pulled {counter.pulls} input elements; a take/take-while stage terminates the process after {L}")
            rec.count("pull_bound_checked")


def fires(pipe, xs):
    """streaming semantics: has some take / take-while stage terminated the process after the inputs xs?
    Buffering stages only pass on what they have certainly emitted so far."""
    xs = list(xs)
    for stg in pipe:
        n, p = stg
        if n == "take" and len(xs) >= max(p, 1):
            return True
        if n == "take-while" and any(not truthy(PREDS[p][1](x)) for x in xs):
            return True
        out = ref_stage(stg, xs)
        if n == "partition-all":
            out = [g for g in out if len(g) == p]
        elif n == "partition-by":
            out = out[:-1]
        xs = out
    return False


def fire_point(pipe, items):
    for k in range(0, len(items) + 1):
        if fires(pipe, items[:k]):
            return k
    return None


def stage_sig(pipe):
    return "+".join(s_[0] for s_ in pipe)


def guard(rec, findings, *a, **kw):
    try:
        check_case(rec, *a, **kw)
    except Violation as v:
        rec.violation(v.sig, v.case, v.detail, finding=v.finding, findings=findings)
    except Exception as e:  # noqa
        v = hyp.classify_exception(e, {"kind": "pipe", "pipe": a[0], "items": a[1], "form": a[2], "rep": a[3],
                                       "inf": kw.get("inf_name")})
        if v is None:
            raise
        v.sig = f"{v.sig.split('@')[0]}:{a[2]}:{stage_sig(a[0])}"
        rec.violation(v.sig, v.case, v.detail, findings=findings)


def shard(i, n, tier, seed, findings):
    c01.quiet_logging()
    rec = Recorder(ID)
    S()
    stages = all_stages()
    maxlen = 4 if tier == "quick" else 6
    idx = 0
    inputs = []
    for L in range(0, maxlen + 1):
        inputs.extend(itertools.product(UNIVERSE, repeat=L))
    for si, stg in enumerate(stages):
        for ii, items in enumerate(inputs):
            idx += 1
            if idx % n != i:
                continue
            # every form on every input; the representation rotates (all 5 are covered across inputs)
            rep = REPS[(ii + si) % len(REPS)]
            for form in FORMS:
                guard(rec, findings, [stg], list(items), form, rep)
    rec.exhaustive[f"depth1-stages-x-inputs<=len{maxlen}"] = True
    # cat on collections of collections
    coll_inputs = [[], [[]], [[1]], [[1], [None, False]], [[], [0], []], [None, [1]], [[1, 2], [], [2]]]
    for ii, items in enumerate(coll_inputs):
        if ii % n == i:
            for form in FORMS:
                for rep in ("vector", "list", "counting"):
                    guard(rec, findings, [["cat", None]], items, form, rep)
    # infinite inputs with a terminating depth-2 pipeline
    term = [["take", 0], ["take", 2], ["take", 3], ["take-while", "number?"], ["take-while", "some?"], ["take-while", "nil?"]]
    k = 0
    for t in term:
        for stg in stages:
            for order in (0, 1):
                pipe = [stg, t] if order == 0 else [t, stg]
                if stg[0] == "cat":
                    continue
                for inf_name in INF_INPUTS:
                    k += 1
                    if k % n != i:
                        continue
                    form = FORMS[k % 5] if tier == "quick" else None
                    for f in ([form] if form else FORMS):
                        guard(rec, findings, pipe, None, f, "counting", inf_name=inf_name)

    # Hypothesis: pipelines of depth 2-3 on random inputs
    stage_st = st.sampled_from(stages)
    elem = st.sampled_from(UNIVERSE)

    @st.composite
    def cases(draw):
        depth = draw(st.integers(2, 3))
        pipe = []
        colls = False
        for _ in range(depth):
            if colls and draw(st.integers(0, 3)) == 0:
                stg = ["cat", None]
            else:
                stg = draw(stage_st)
            pipe.append(stg)
            colls = produces_colls(stg)
        items = draw(st.lists(elem, max_size=9))
        return pipe, items, draw(st.sampled_from(FORMS)), draw(st.sampled_from(REPS))

    def body(val):
        pipe, items, form, rep = val
        check_case(rec, pipe, items, form, rep)

    hyp.drive(body, cases(), rec=rec, findings=findings, seed=seed * 1000 + i,
              max_examples=400 if tier == "quick" else 8000,
              to_case=lambda v: {"kind": "pipe", "pipe": v[0], "items": v[1], "form": v[2], "rep": v[3], "inf": None})
    return rec


def replay(case):
    c01.quiet_logging()
    rec = Recorder(ID)
    S()
    check_case(rec, case["pipe"], case["items"], case["form"], case["rep"], inf_name=case.get("inf"))
