"""C10 — a name denotes one binding, and reading it sees the value last given to it.

Histories (def / redefinition / def with ^:dynamic ^:redef ^:private / require :as / refer /
alter-var-root / binding / defining reader functions that are called later) are run in fresh,
uniquely named namespaces.  After every step every live name is read through every spelling
(bare, alias/n, full.ns/n, @#'n, (deref (resolve 'n)), reader functions compiled earlier) and
compared with a model {(ns, name) -> value}.  Each history runs under the 4 configurations
direct/indirect linking x inlining on/off; histories that change roots only through def must give
identical read tables in all of them."""
from __future__ import annotations

import itertools

from hypothesis import strategies as st

from vlib import boot, hyp, progfuzz as pf
from vlib.harness import Recorder, Violation, canon
from props import c01

ID = "C10"
MANIFEST = {
    "technique": "model-based history testing with Hypothesis (histories of namespace/Var operations over a pool of munge-colliding names) + a systematic pairwise name matrix; model of Var roots and bindings; differential between direct linking and Var indirection",
    "text": "stateful model-based search: every history of def, redefinition, ^:dynamic/^:redef/^:private defs, require-with-alias, refer, alter-var-root, binding and reader-function definitions over a name pool with munging near-collisions (a-b/a_b, x?/x__Q__, f'/f__PRIME__, Python builtins and keywords with their trailing-underscore forms, the Python module alias of the required namespace) runs in fresh namespaces under direct linking and Var indirection, with and without inlining; after every step every live name is read through every spelling and compared with a model of the Var table; private Vars must be unreachable from the other namespace; read tables of def-only histories must be identical across configurations. Holds for the explored histories.",
    "note": "after alter-var-root / binding, plain direct-linked reads of Vars that are neither dynamic nor redef are not checked (documented: not propagated); all reads under Var indirection are",
    "engine": "E3 history machines",
}
LEVEL = "exploration"
NSHARDS = 16
RULE = ("Hypothesis histories (<=10 ops) over 2 namespaces and a pool of near-colliding names x 4 compiler configurations + the full "
        "pairwise matrix of the name pool (def a, def b, read both). Non-trivial = the history contains a redefinition, a near-colliding "
        "pair of names or a cross-namespace spelling; distinct by (ops, configuration).")
ASSUMPTIONS = [
    "root changes through alter-var-root / binding are only required to be visible for ^:dynamic / ^:redef Vars or under Var indirection",
]

NAMES = ["a-b", "a_b", "x?", "x__Q__", "f'", "f__PRIME__", "list", "list_", "in", "in_", "class", "None", "print", "plain", "*dyn*", "->v", "MODALIAS"]
CONFIGS = [dict(use_var_indirection=a, inline_functions=b) for a in (False, True) for b in (True, False)]


def munge(n):
    return pf.pymunge(n)


def real_name(n, nsB):
    return munge(nsB).replace(".", "_") if n == "MODALIAS" else n


class Var:
    __slots__ = ("value", "dynamic", "redef", "private", "tainted", "order")

    def __init__(self, value, dynamic=False, redef=False, private=False, order=0):
        self.value, self.dynamic, self.redef, self.private, self.tainted, self.order = value, dynamic, redef, private, False, order


class World:
    """one run of a history under one compiler configuration"""

    def __init__(self, cfg):
        self.cfg = cfg
        self.nsA = boot.fresh_ns_name("vna")
        self.nsB = boot.fresh_ns_name("vnb.lib")
        self.sA = boot.Session(ns_name=self.nsA, opts=dict(cfg))
        self.sB = boot.Session(ns_name=self.nsB, opts=dict(cfg))
        self.vars = {}          # (ns 'A'|'B', name) -> Var
        self.alias = False
        self.referred = set()   # names of B referred into A
        self.readers = []       # (fn object, ns, name)
        self.clock = itertools.count(1)

    def close(self):
        self.sA.close()
        self.sB.close()

    def full(self, ns):
        return self.nsA if ns == "A" else self.nsB

    def ses(self, ns):
        return self.sA if ns == "A" else self.sB


def apply_op(w: World, op):
    """-> None; raises Violation on an unexpected compile/runtime failure"""
    k = op[0]
    if k in ("def", "fndef"):
        _, ns, nm, val, flag = op[:5]
        nm = real_name(nm, w.nsB)
        meta = {"dynamic": "^:dynamic ", "redef": "^:redef ", "private": "^:private ", None: ""}[flag]
        if flag == "dynamic" and not (nm.startswith("*") and nm.endswith("*")):
            meta = "^:dynamic "
        prev = w.vars.get((ns, nm))
        if k == "def":
            w.ses(ns).eval(f"(def {meta}{nm} {val})")
        elif op[5] == 1:
            # the def runs inside a function that is called
            w.ses(ns).eval(f"((fn [] (def {meta}{nm} {val})))")
        else:
            # ... or inside a function nested in a function that def'ed the same name before
            w.ses(ns).eval(f"((fn [] (def {meta}{nm} {val + 100}) ((fn [] (def {meta}{nm} {val})))))")
        w.vars[(ns, nm)] = Var(val, flag == "dynamic", flag == "redef", flag == "private", next(w.clock))
        if prev is not None and prev.private and flag != "private":
            w.vars[(ns, nm)].private = False
    elif k == "alias":
        w.sA.eval(f"(require '[{w.nsB} :as lb])")
        w.alias = True
    elif k == "refer":
        nm = real_name(op[1], w.nsB)
        v = w.vars.get(("B", nm))
        if v is None or v.private or ("A", nm) in w.vars:
            return
        w.sA.eval(f"(refer '{w.nsB} :only '[{nm}])")
        w.referred.add(nm)
    elif k == "alter":
        _, ns, nm, val = op
        nm = real_name(nm, w.nsB)
        v = w.vars.get((ns, nm))
        if v is None:
            return
        w.ses(ns).eval(f"(alter-var-root (var {w.full(ns)}/{nm}) (constantly {val}))")
        v.value = val
        v.tainted = True
    elif k == "reader":
        _, ns, nm = op
        nm = real_name(nm, w.nsB)
        v = w.vars.get((ns, nm))
        if v is None or (ns == "B" and v.private):
            return
        spelling = nm if ns == "A" else f"{w.nsB}/{nm}"
        f = w.sA.eval(f"(fn [] {spelling})")
        # a reader compiled while the Var is neither ^:dynamic nor ^:redef may be linked directly
        w.readers.append((f, ns, nm, spelling, not (v.dynamic or v.redef)))
    elif k == "binding":
        pass   # handled in reads (scoped)
    else:
        raise ValueError(op)


def visible(w: World, v: Var):
    """is a *plain* read of this Var required to see v.value?"""
    return (not v.tainted) or v.dynamic or v.redef or w.cfg["use_var_indirection"]


def collision_finding(w: World, ns, nm, got):
    """known finding F-10a: two def'ed names of one namespace whose munged names are equal share one
    Python global under direct linking; the predicted value is that of the most recent def among them"""
    # F-10b: a def in A named like the Python module alias the compiler gives the other namespace
    # shares one module global with that alias (reads of the def see the module; direct-linked reads of
    # the other namespace's Vars go through the overwritten alias)
    modalias = real_name("MODALIAS", w.nsB)
    if ("A", modalias) in w.vars and (nm == modalias or ns == "B"):
        if got[0] == "raise" or (got[0] == "ok" and type(got[1]).__name__ in ("BasilispModule", "module")):
            return "F-10b"
    same = [(n2, v2) for (ns2, n2), v2 in w.vars.items() if ns2 == ns and n2 != nm and munge(n2) == munge(nm)]
    if not same:
        return None
    cands = same + [(nm, w.vars[(ns, nm)])]
    latest = max(cands, key=lambda t: t[1].order)
    if got == ("ok", latest[1].value):
        return "F-10a"
    return None


def read_all(w: World, step, table):
    """read every live name through every spelling; compare with the model; fill `table` (for the
    cross-configuration differential)"""
    for (ns, nm), v in sorted(w.vars.items(), key=lambda t: (t[0][0], t[0][1])):
        full = w.full(ns)
        spellings = []
        if ns == "A":
            spellings.append(("bare", nm))
        else:
            if nm in w.referred and ("A", nm) not in w.vars:
                spellings.append(("referred", nm))
            if w.alias:
                spellings.append(("alias", f"lb/{nm}"))
        spellings.append(("full", f"{full}/{nm}"))
        spellings.append(("var-deref", f"@(var {full}/{nm})"))
        spellings.append(("resolve", f"(deref (resolve '{full}/{nm}))"))
        for kind, src in spellings:
            try:
                got = ("ok", w.sA.eval(src))
            except Exception as e:  # noqa
                got = ("raise", type(e).__name__)
            table.append((step, ns, "MODALIAS" if nm == real_name("MODALIAS", w.nsB) else nm, kind, got))
            if ns == "B" and v.private:
                if kind in ("alias", "full", "referred") and got[0] == "ok":
                    raise Violation("private-var-reachable", None, f"step {step}: {src} read the private Var {full}/{nm} from another namespace: {got[1]!r}")
                continue
            plain = kind in ("bare", "referred", "alias", "full")
            if plain and not visible(w, v):
                continue
            if got != ("ok", v.value):
                fid = collision_finding(w, ns, nm, got) if plain and not w.cfg["use_var_indirection"] else None
                raise Violation(f"wrong-value-read:{kind}", None,
                                f"step {step}: {src} (config {w.cfg}) gave {got}; the Var {full}/{nm} was last given {v.value!r}; "
                                f"vars {[(k, x.value) for k, x in w.vars.items()]}", finding=fid)
    for f, ns, nm, spelling, direct in w.readers:
        v = w.vars.get((ns, nm))
        if v is None or not visible(w, v):
            continue
        if direct and v.tainted and not w.cfg["use_var_indirection"]:
            continue        # compiled before the Var became ^:redef / ^:dynamic: root changes other than def need not reach it
        try:
            got = ("ok", f())
        except Exception as e:  # noqa
            got = ("raise", type(e).__name__)
        table.append((step, ns, "MODALIAS" if nm == real_name("MODALIAS", w.nsB) else nm, "reader-fn", got))
        if got != ("ok", v.value):
            fid = collision_finding(w, ns, nm, got) if not w.cfg["use_var_indirection"] else None
            raise Violation("wrong-value-read:reader-fn", None,
                            f"step {step}: a function compiled earlier as (fn [] {spelling}) returned {got}; the Var was last given {v.value!r} (config {w.cfg})", finding=fid)


def check_binding(w: World, op, step):
    _, ns, nm, val = op
    nm = real_name(nm, w.nsB)
    v = w.vars.get((ns, nm))
    if v is None or not v.dynamic or (ns == "B" and v.private):
        return
    full = w.full(ns)
    src = f"[(binding [{full}/{nm} {val}] [{full}/{nm} @(var {full}/{nm})]) {full}/{nm}]"
    try:
        got = w.sA.eval(src)
    except Exception as e:  # noqa
        raise Violation("binding-raises", None, f"step {step}: {src}: {type(e).__name__}: {str(e)[:200]}")
    inner, after = list(got[0]), got[1]
    if inner != [val, val] or after != v.value:
        raise Violation("binding-not-visible-or-not-restored", None, f"step {step}: {src} -> {got!r}; expected [[{val} {val}] {v.value}]")


def run_history(rec, ops, count=True):
    tables = []
    only_defs = all(o[0] in ("def", "fndef", "alias", "refer", "reader") for o in ops)
    names = [real_name(o[2], "X") for o in ops if o[0] in ("def", "fndef")]
    collide = any(a != b and munge(a) == munge(b) for a, b in itertools.combinations(set(names), 2))
    redefs = len(names) != len(set((o[1], o[2]) for o in ops if o[0] in ("def", "fndef")))
    cross = any(o[0] in ("alias", "refer") for o in ops) or any(o[0] == "def" and o[1] == "B" for o in ops)
    case = {"kind": "history", "ops": ops}
    if count:
        cls = [c for c, f in (("near-colliding-names", collide), ("redefinition", redefs), ("cross-namespace", cross)) if f]
        rec.case(canon(ops), nontrivial=collide or redefs or cross, cls=cls or ["plain"], sample=ops, sub="histories")
    for ci, cfg in enumerate(CONFIGS):
        w = World(cfg)
        table = []
        try:
            for step, op in enumerate(ops):
                try:
                    if op[0] == "binding":
                        check_binding(w, op, step)
                    else:
                        apply_op(w, op)
                except Violation:
                    raise
                except Exception as e:  # noqa
                    raise Violation(f"operation-raises:{op[0]}:{type(e).__name__}", None, f"step {step} {op} under {cfg}: {type(e).__name__}: {str(e)[:300]}")
                read_all(w, step, table)
        except Violation as v:
            v.case = dict(case, config=ci)
            raise
        finally:
            w.close()
        tables.append([(a, b, c, d, e) for (a, b, c, d, e) in table])
    if only_defs:
        for ci in range(1, len(tables)):
            if tables[ci] != tables[0]:
                diff = next(((x, y) for x, y in zip(tables[0], tables[ci]) if x != y), None)
                raise Violation("configurations-disagree", case, f"read tables differ between {CONFIGS[0]} and {CONFIGS[ci]}: first difference {diff}")


def ops_strategy():
    name = st.sampled_from(NAMES)
    ns = st.sampled_from(["A", "A", "B"])
    val = st.integers(1, 99)
    op = st.one_of(
        st.tuples(st.just("def"), ns, name, val, st.sampled_from([None, None, None, "dynamic", "redef", "private"])),
        st.tuples(st.just("def"), ns, name, val, st.just(None)),
        st.tuples(st.just("fndef"), ns, name, val, st.sampled_from([None, None, "redef", "dynamic"]), st.sampled_from([1, 2])),
        st.tuples(st.just("alias")), st.tuples(st.just("refer"), name),
        st.tuples(st.just("alter"), ns, name, val),
        st.tuples(st.just("reader"), ns, name),
        st.tuples(st.just("binding"), ns, name, val),
    ).map(list)
    return st.lists(op, min_size=1, max_size=10)


def normalize(ops):
    """keep a history well-formed: a name keeps the kind it was first defined with in its namespace (a Var
    cannot silently stop being dynamic), dynamic Vars use earmuffs-free names as given"""
    kinds = {}
    out = []
    for o in ops:
        if o[0] in ("def", "fndef"):
            key = (o[1], o[2])
            if key in kinds:
                if kinds[key] is None and o[4] in ("redef", "dynamic"):
                    kinds[key] = o[4]      # a plain Var may later be re-def'ed ^:redef / ^:dynamic (never the reverse)
                else:
                    o = o[:4] + [kinds[key]] + o[5:]
            else:
                kinds[key] = o[4]
        out.append(o)
    return out


def shard(i, n, tier, seed, findings):
    c01.quiet_logging()
    rec = Recorder(ID)
    # systematic: every ordered pair of names defined in one namespace and read back, plus the same
    # pair split across the two namespaces with alias + refer
    idx = 0
    for a, b in itertools.permutations(NAMES, 2):
        for shape in ("same-ns", "two-ns"):
            idx += 1
            if idx % n != i:
                continue
            if shape == "same-ns":
                ops = [["def", "A", a, 1, None], ["reader", "A", a], ["def", "A", b, 2, None], ["def", "A", a, 3, None]]
            else:
                ops = [["def", "B", a, 1, None], ["alias"], ["def", "A", b, 2, None], ["refer", a], ["reader", "B", a], ["def", "B", a, 4, None]]
            try:
                run_history(rec, ops)
            except Violation as v:
                rec.violation(v.sig, v.case, v.detail, finding=v.finding, findings=findings)
    rec.exhaustive["name-pair-matrix"] = True

    # systematic: a plain Var that is read by functions compiled earlier, then re-def'ed (plain / ^:redef / ^:dynamic;
    # at top level, inside a called function, inside a function nested in a function that def'ed the name before)
    k = 0
    for nm in NAMES:
        for ns in ("A", "B"):
            for flag in (None, "redef", "dynamic"):
                k += 1
                if k % n != i:
                    continue
                ops = [["def", ns, nm, 1, None], ["alias"], ["reader", ns, nm], ["def", ns, nm, 2, flag], ["reader", ns, nm],
                       ["fndef", ns, nm, 3, flag, 1], ["fndef", ns, nm, 4, flag, 2], ["def", ns, nm, 5, flag]]
                try:
                    run_history(rec, ops)
                except Violation as v:
                    rec.violation(v.sig, v.case, v.detail, finding=v.finding, findings=findings)
    rec.exhaustive["redef-matrix"] = True

    hyp.drive(lambda ops: run_history(rec, normalize(ops)), ops_strategy(), rec=rec, findings=findings, seed=seed * 1000 + i,
              max_examples=25 if tier == "quick" else 700, to_case=lambda ops: {"kind": "history", "ops": normalize(ops)})
    return rec


def replay(case):
    c01.quiet_logging()
    rec = Recorder(ID)
    run_history(rec, case["ops"], count=False)
