"""C03 — readable printing round-trips through the reader.

Generated input: Hypothesis recursive values over the readable data universe + exhaustive
strings <= 3 over an escape-relevant alphabet (bare, in a vector, as map key, as regex, as
bytes) + floats over all boundary exponents.  Oracle: read(print(v)) is exactly one form, equal
to v and of the same type element-wise (NaN == NaN), metadata preserved under *print-meta*;
print is deterministic; print(read(print(v))) == print(v).  Two layers: core pr-str /
read-string and obj.lrepr / reader.read_str."""
from __future__ import annotations

import datetime
import itertools
import math
import re
import uuid
from decimal import Decimal
from fractions import Fraction

from hypothesis import strategies as st

from vlib import boot, hyp
from vlib.harness import Recorder, Violation, canon

ID = "C03"
MANIFEST = {
    "technique": "Hypothesis recursive value generation + exhaustive short strings over an escape alphabet + boundary-exponent floats; print/read round-trip oracle with type-exact NaN-aware structural comparison, determinism and print-fixpoint checks, 8 print-Var configurations, two API layers",
    "text": "random and bounded-exhaustive round-trip search: every generated value of the readable universe is printed under every combination of *print-dup* x *print-meta* x *print-namespace-maps* and re-read through core read-string and reader.read_str; the result must be one form, equal and of the same concrete type element-wise, with metadata preserved, and re-printing must give the same text. All strings up to length 3 over a 16-character escape alphabet and ~2,000 boundary floats are enumerated completely. Shows absence of violations only on the generated values.",
    "note": "special Decimals (NaN/Infinity) are outside the universe (they print as the float constants); decimals are only required to round-trip with *print-dup* on, as the statement allows; symbol/keyword names are drawn from the reader's identifier grammar",
    "engine": "E2 data universes",
}
LEVEL = "exploration"
NSHARDS = 16
RULE = ("Hypothesis recursive values (nesting<=5,width<=6) x 8 print configurations x 2 layers; exhaustive strings "
        "len<=3 over the escape alphabet in 5 contexts; boundary floats. Non-trivial = value contains a non-ASCII/"
        "control/escape character, an exponent or special float, ratio/decimal/complex, regex, bytes, #py collection, "
        "uuid/inst, queue, metadata or nesting>=2; distinct by the printed text under print-dup+print-meta.")
ASSUMPTIONS = [
    "Decimal NaN/Infinity are not generated (no literal keeps their type)",
    "values containing decimals are only required to round-trip under *print-dup* true",
    "NaN is not generated as map key or set member (it can never be found again); NaN elsewhere compares NaN==NaN",
    "reader line/col metadata keys are ignored when comparing metadata",
    "print(read(print v)) == print v is not required of values holding a #py set with >1 members: a Python set's iteration order depends on its insertion history, which basilisp does not control",
]

ALPHABET = ['"', "\\", "\n", "\t", "\r", "\0", "\x1f", "\x7f", "é", "中", "\U0001f600", "a", "0", "u", " ", "f"]

_S = {}


def S():
    if _S:
        return _S
    from basilisp.lang import keyword as kw, symbol as sym, vector as vec, list as llist, \
        map as lmap, set as lset, queue as lqueue, seq as lseq, reader, runtime, obj
    ses = boot.Session()
    d = dict(ses=ses, kw=kw, sym=sym, vec=vec, llist=llist, lmap=lmap, lset=lset, lqueue=lqueue,
             lseq=lseq, reader=reader, runtime=runtime, obj=obj)
    for n in ("pr-str", "read-string", "=", "with-meta", "meta"):
        d[n] = boot.core(n)
    for n in ("*print-dup*", "*print-meta*", "*print-namespace-maps*", "*print-length*", "*print-level*",
              "*print-readably*"):
        d[n] = boot.core_var(n)
    _S.update(d)
    return _S


# ---- abstract values: JSON-able descriptions built into real values ---------------------
# ["nil"] ["b",true] ["i",n] ["f","repr"] ["r",n,d] ["d","str"] ["c","repr-imag"] ["s",str] ["k",ns,name]
# ["y",ns,name,meta?] ["u",hex] ["t",iso] ["re",pattern] ["by",[ints]] ["l",[..],meta] ["v",[..],meta]
# ["m",[[k,v]..],meta] ["e",[..],meta] ["q",[..]] ["pl",[..]] ["pt",[..]] ["pd",[[k,v]..]] ["ps",[..]]

def build(a):
    s = S()
    t = a[0]
    if t == "nil":
        return None
    if t == "b":
        return bool(a[1])
    if t == "i":
        return int(a[1])
    if t == "f":
        return float(a[1])
    if t == "r":
        return Fraction(a[1], a[2])
    if t == "d":
        return Decimal(a[1])
    if t == "c":
        return complex(0, float(a[1]))
    if t == "s":
        return a[1]
    if t == "k":
        return s["kw"].keyword(a[2], ns=a[1])
    if t == "y":
        v = s["sym"].symbol(a[2], ns=a[1])
        return with_meta(v, a[3] if len(a) > 3 else None)
    if t == "u":
        return uuid.UUID(a[1])
    if t == "t":
        return datetime.datetime.fromisoformat(a[1])
    if t == "re":
        return re.compile(a[1])
    if t == "by":
        return bytes(a[1])
    if t == "l":
        return with_meta(s["llist"].list([build(x) for x in a[1]]), a[2] if len(a) > 2 else None)
    if t == "v":
        return with_meta(s["vec"].vector([build(x) for x in a[1]]), a[2] if len(a) > 2 else None)
    if t == "m":
        m = s["lmap"].EMPTY
        for k, v in a[1]:
            m = m.assoc(build(k), build(v))
        return with_meta(m, a[2] if len(a) > 2 else None)
    if t == "e":
        return with_meta(s["lset"].set([build(x) for x in a[1]]), a[2] if len(a) > 2 else None)
    if t == "q":
        return s["lqueue"].queue([build(x) for x in a[1]])
    if t == "pl":
        return [build(x) for x in a[1]]
    if t == "pt":
        return tuple(build(x) for x in a[1])
    if t == "pd":
        return {build(k): build(v) for k, v in a[1]}
    if t == "ps":
        return {build(x) for x in a[1]}
    raise ValueError(a)


def with_meta(v, meta):
    if meta is None:
        return v
    return v.with_meta(build(meta))


def contains(a, pred):
    if pred(a):
        return True
    t = a[0]
    if t in ("l", "v", "e", "q", "pl", "pt", "ps"):
        r = any(contains(x, pred) for x in a[1])
    elif t in ("m", "pd"):
        r = any(contains(k, pred) or contains(v, pred) for k, v in a[1])
    else:
        r = False
    if not r and t in ("l", "v", "m", "e", "y") and len(a) > (3 if t == "y" else 2):
        m = a[3] if t == "y" else a[2]
        if m is not None:
            r = contains(m, pred)
    return r


def depth(a):
    t = a[0]
    if t in ("l", "v", "e", "q", "pl", "pt", "ps"):
        return 1 + max([depth(x) for x in a[1]] + [0])
    if t in ("m", "pd"):
        return 1 + max([max(depth(k), depth(v)) for k, v in a[1]] + [0])
    return 0


def is_interesting_leaf(a):
    t = a[0]
    if t == "s":
        return any(ord(c) > 126 or ord(c) < 32 or c in '"\\' for c in a[1])
    if t == "f":
        return "e" in a[1] or a[1] in ("nan", "inf", "-inf")
    if t in ("r", "d", "c", "re", "by", "u", "t", "q", "pl", "pt", "pd", "ps"):
        return True
    if t in ("l", "v", "m", "e") and len(a) > 2 and a[2] is not None:
        return True
    if t == "y" and len(a) > 3 and a[3] is not None:
        return True
    return False


def nontrivial(a):
    return depth(a) >= 2 or contains(a, is_interesting_leaf)


# ---- comparison ---------------------------------------------------------------------------

READER_META_NS = "basilisp.lang.reader"


def strip_reader_meta(m):
    if m is None:
        return None
    out = m
    for k in list(m.keys()):
        if getattr(k, "ns", None) == READER_META_NS:
            out = out.dissoc(k)
    return out if len(out) else None


def same(x, y, check_meta, path="") -> str | None:
    """None when x and y are the same value of the same type element-wise, else a description"""
    s = S()
    if type(x) is not type(y):
        return f"{path}: type {type(x).__name__} became {type(y).__name__}"
    if isinstance(x, float):
        if math.isnan(x) or math.isnan(y):
            return None if math.isnan(x) and math.isnan(y) else f"{path}: {x!r} became {y!r}"
        if x != y or math.copysign(1, x) != math.copysign(1, y):
            return f"{path}: {x!r} became {y!r}"
        return None
    if isinstance(x, complex):
        return None if (x == y or (math.isnan(x.imag) and math.isnan(y.imag))) else f"{path}: {x!r} became {y!r}"
    if isinstance(x, re.Pattern):
        return None if (x.pattern == y.pattern and x.flags == y.flags) else f"{path}: pattern {x.pattern!r} became {y.pattern!r}"
    if isinstance(x, (s["vec"].PersistentVector, s["llist"].PersistentList, s["lqueue"].PersistentQueue, list, tuple)):
        if len(x) != len(y):
            return f"{path}: length {len(x)} became {len(y)}"
        for i, (p, q) in enumerate(zip(x, y)):
            r = same(p, q, check_meta, f"{path}[{i}]")
            if r:
                return r
    elif isinstance(x, (s["lmap"].PersistentMap, dict)):
        if len(x) != len(y):
            return f"{path}: size {len(x)} became {len(y)}"
        ys = list(y.items())
        for k, v in x.items():
            for k2, v2 in ys:
                if same(k, k2, check_meta) is None:
                    r = same(v, v2, check_meta, f"{path}{{{k!r}}}")
                    if r:
                        return r
                    break
            else:
                return f"{path}: key {k!r} lost"
    elif isinstance(x, (s["lset"].PersistentSet, set, frozenset)):
        if len(x) != len(y):
            return f"{path}: size {len(x)} became {len(y)}"
        for e in x:
            if not any(same(e, e2, check_meta) is None for e2 in y):
                return f"{path}: member {e!r} lost"
    else:
        if x != y:
            return f"{path}: {x!r} became {y!r}"
    if check_meta and hasattr(x, "meta") and not isinstance(x, (s["kw"].Keyword,)):
        mx, my = strip_reader_meta(x.meta), strip_reader_meta(y.meta)
        if (mx is None) != (my is None):
            return f"{path}: metadata {mx!r} became {my!r}"
        if mx is not None:
            r = same(mx, my, check_meta, path + "^meta")
            if r:
                return r
    return None


def strip_deep(x):
    """remove the reader's own location metadata (and nothing else) from a re-read value"""
    s = S()
    if isinstance(x, s["vec"].PersistentVector) and not isinstance(x, s["vec"].MapEntry):
        y = s["vec"].vector([strip_deep(e) for e in x])
    elif isinstance(x, s["llist"].PersistentList):
        y = s["llist"].list([strip_deep(e) for e in x])
    elif isinstance(x, s["lmap"].PersistentMap):
        y = s["lmap"].EMPTY
        for k, v in x.items():
            y = y.assoc(strip_deep(k), strip_deep(v))
    elif isinstance(x, s["lset"].PersistentSet):
        y = s["lset"].set([strip_deep(e) for e in x])
    elif isinstance(x, s["lqueue"].PersistentQueue):
        return s["lqueue"].queue([strip_deep(e) for e in x])
    elif isinstance(x, s["sym"].Symbol):
        y = x
    elif isinstance(x, list):
        return [strip_deep(e) for e in x]
    elif isinstance(x, tuple):
        return tuple(strip_deep(e) for e in x)
    elif isinstance(x, dict):
        return {strip_deep(k): strip_deep(v) for k, v in x.items()}
    elif isinstance(x, set):
        return {strip_deep(e) for e in x}
    else:
        return x
    m = strip_reader_meta(x.meta)
    if m is not None:
        m = strip_deep(m)
    return y.with_meta(m)


def reason_sig(r):
    m = re.search(r": type (\w+) became (\w+)", r)
    if m:
        return f"type {m.group(1)} became {m.group(2)}"
    for w, tag in ((": pattern ", "regex-pattern-changed"), (": key ", "key-lost"), (": member ", "member-lost"),
                   (": length ", "length-changed"), (": size ", "size-changed"), (": metadata ", "metadata-changed")):
        if w in r:
            return tag
    if " became " in r:
        return "leaf-value-changed"
    r = re.sub(r"[-+]?\d[\d.e+-]*", "N", r)
    r = re.sub(r"'[^']*'|\"[^\"]*\"", "_", r)
    return r[:50]


# ---- the property -------------------------------------------------------------------------

CONFIGS = [(d, m, n) for d in (False, True) for m in (False, True) for n in (False, True)]


def pr_core(v, dup, meta, nsmaps, length=None):
    s = S()
    b = s["lmap"].map({s["*print-dup*"]: dup, s["*print-meta*"]: meta, s["*print-namespace-maps*"]: nsmaps,
                       s["*print-length*"]: length, s["*print-level*"]: None, s["*print-readably*"]: True})
    with s["runtime"].bindings(b):
        return s["pr-str"](v)


def pr_obj(v, dup, meta, nsmaps, length=None):
    return S()["obj"].lrepr(v, human_readable=False, print_dup=dup, print_length=length, print_level=None,
                            print_meta=meta, print_namespace_maps=nsmaps, print_readably=True)


def read_all(text, layer):
    s = S()
    if layer == "core":
        # read-string returns the first form only; to assert "exactly one form" we read all forms
        with s["runtime"].ns_bindings(s["ses"].ns_name):
            return list(s["reader"].read_str(text, resolver=s["runtime"].resolve_alias)), s["read-string"](text)
    return list(s["reader"].read_str(text)), None


def check_value(rec, a, layers=("core", "obj"), configs=CONFIGS, cls=None, count=True):
    s = S()
    v = build(a)
    has_dec = contains(a, lambda x: x[0] == "d")
    has_pyset = contains(a, lambda x: x[0] == "ps" and len(x[1]) > 1)
    key = None
    for layer in layers:
        for (dup, meta, nsm) in configs:
            if has_dec and not dup:
                continue
            case = {"kind": "value", "value": a, "layer": layer, "dup": dup, "meta": meta, "nsmaps": nsm}
            pr = pr_core if layer == "core" else pr_obj
            try:
                t1 = pr(v, dup, meta, nsm)
                t2 = pr(v, dup, meta, nsm)
            except Exception as e:  # noqa
                raise Violation(f"printer-raises:{type(e).__name__}", case, repr(e))
            if key is None:
                key = t1
            if t1 != t2:
                raise Violation("print-not-deterministic", case, f"{t1!r} then {t2!r}")
            if dup:
                # *print-dup* output claims to be readable whatever *print-length* says (the printers skip the
                # length limit under print-dup): the text must not be abbreviated
                for n in (0, 1):
                    try:
                        tl = pr(v, dup, meta, nsm, n)
                    except Exception as e:  # noqa
                        raise Violation(f"printer-raises:{type(e).__name__}", case, repr(e))
                    if tl != t1:
                        raise Violation("print-dup-output-abbreviated-by-print-length", dict(case, print_length=n),
                                        f"with *print-dup* true and *print-length* {n}: {tl!r}; without a length limit: {t1!r}")
            try:
                forms, first = read_all(t1, layer)
            except Exception as e:  # noqa
                raise Violation(f"printed-text-unreadable:{type(e).__name__}:{reason_sig(str(e).split(' (line')[0])}", case, f"text={t1!r}: {type(e).__name__}: {e}")
            if len(forms) != 1:
                raise Violation("not-exactly-one-form", case, f"text={t1!r} read as {len(forms)} forms")
            back = forms[0]
            r = same(v, back, check_meta=meta, path="v")
            if r:
                raise Violation(f"round-trip-differs:{reason_sig(r)}", case, f"text={t1!r}: {r}")
            if layer == "core":
                r = same(v, first, check_meta=meta, path="v")
                if r:
                    raise Violation(f"round-trip-differs:{reason_sig(r)}", case, f"read-string text={t1!r}: {r}")
            try:
                t3 = pr(strip_deep(back) if meta else back, dup, meta, nsm)
            except Exception as e:  # noqa
                raise Violation(f"printer-raises:{type(e).__name__}", case, repr(e))
            if t3 != t1 and not has_pyset:
                raise Violation("reprint-differs", case, f"{t1!r} re-read and printed gives {t3!r}")
            if count:
                rec.evaluations += 1
    if count:
        rec.evaluations -= 1
        rec.case(key if key is not None else canon(a), nontrivial=nontrivial(a), cls=cls or f"value/{a[0]}",
                 sample={"value": a, "text": key})


# ---- generators -----------------------------------------------------------------------------

START = "abcxyzABZ*+!_?<>="
CONT = START + "0123456789.'-"


def ident_names():
    def ok(n):
        return n not in ("nil", "true", "false") and not n.startswith(".") and not n.endswith(".") \
            and ".." not in n and not re.match(r"^[+-]?\d", n) and not (n[0] in "+-" and len(n) > 1 and n[1].isdigit())
    return st.builds(lambda a, b: a + b, st.sampled_from(START), st.text(alphabet=CONT, max_size=5)).filter(ok)


def ns_names():
    seg = st.builds(lambda a, b: a + b, st.sampled_from("abcxyz"), st.text(alphabet="abc0-_", max_size=3)).filter(
        lambda x: not x.endswith("-"))
    return st.lists(seg, min_size=1, max_size=2).map(".".join)


def float_leaves():
    specials = [0.0, -0.0, 1.0, -1.5, 1e16, 1e15, 1e22, 1e23, 1e-5, 1e-4, 5e-324, 1.7976931348623157e308,
                2.2250738585072014e-308, 1.401298464324817e-45, 123456789012345680.0, 0.1, 1 / 3]
    return st.one_of(
        st.sampled_from(specials).map(lambda x: ["f", repr(x)]),
        st.sampled_from(["nan", "inf", "-inf"]).map(lambda x: ["f", x]),
        st.floats(allow_nan=False, allow_infinity=False).map(lambda x: ["f", repr(x)]),
    )


def text_leaves():
    return st.one_of(
        st.text(alphabet=ALPHABET, max_size=5),
        st.text(max_size=6),
        st.text(alphabet=st.characters(min_codepoint=0, max_codepoint=0x2FF), max_size=4),
    ).map(lambda x: ["s", x])


REGEXES = [r"\d+", r"a|b", r"[a-z]*", r"\\", r"\s\S", r"(x)(?:y)", r"é+", r"a/b", r"\.", r"^$", "", r"\w{2,3}",
           r"[\]\\]", r"é", "a b", r"\t", "\t", r"\/"]


def scalar_leaves():
    return st.one_of(
        st.just(["nil"]), st.booleans().map(lambda b: ["b", b]),
        st.integers(-10, 10).map(lambda n: ["i", n]),
        st.integers(-2 ** 80, 2 ** 80).map(lambda n: ["i", n]),
        float_leaves(),
        st.tuples(st.integers(-50, 50), st.integers(2, 50)).filter(lambda t: math.gcd(t[0], t[1]) == 1 and t[0] != 0)
        .map(lambda t: ["r", t[0], t[1]]),
        st.sampled_from(["0", "1", "1.50", "-0.001", "1E+30", "1E-7", "123456789.123456789", "-0", "0E-10"]).map(lambda x: ["d", x]),
        st.sampled_from(["1.0", "0.0", "-1.5", "2.5", "1e+22", "100.0"]).map(lambda x: ["c", x]),
        text_leaves(),
        st.tuples(st.one_of(st.none(), ns_names()), ident_names()).map(lambda t: ["k", t[0], t[1]]),
        st.tuples(st.one_of(st.none(), ns_names()), ident_names()).map(lambda t: ["y", t[0], t[1]]),
        st.uuids().map(lambda u: ["u", str(u)]),
        st.datetimes(min_value=datetime.datetime(1, 1, 1), max_value=datetime.datetime(9999, 12, 31),
                     timezones=st.one_of(st.none(), st.just(datetime.timezone.utc),
                                         st.just(datetime.timezone(datetime.timedelta(hours=5, minutes=30))))).map(
            lambda d: ["t", d.isoformat()]),
        st.sampled_from(REGEXES).map(lambda p: ["re", p]),
        st.lists(st.one_of(st.integers(0, 255), st.sampled_from([34, 39, 92, 10, 0, 127, 128, 255])), max_size=6).map(lambda b: ["by", b]),
    )


def hashable_key(a):
    """canonical identity of a leaf as Python hashing sees it (so generated maps/sets have no clashing keys)"""
    t = a[0]
    if t in ("i", "b"):
        return ("n", Fraction(int(a[1])))
    if t == "f":
        f = float(a[1])
        return ("nan",) if math.isnan(f) else (("n", Fraction(f)) if not math.isinf(f) else ("inf", a[1]))
    if t == "r":
        return ("n", Fraction(a[1], a[2]))
    if t == "d":
        return ("n", Fraction(Decimal(a[1])))
    if t == "c":
        return ("c", a[1]) if float(a[1]) != 0 else ("n", Fraction(0))
    if t in ("l", "v", "q", "pt"):
        return ("seq", tuple(hashable_key(x) for x in a[1]))
    if t == "m":
        return ("m", frozenset((hashable_key(k), hashable_key(v)) for k, v in a[1]))
    if t == "e":
        return ("e", frozenset(hashable_key(x) for x in a[1]))
    if t == "y":
        return ("y", a[1], a[2])
    return tuple(a) if all(not isinstance(x, list) for x in a) else ("x", canon(a))


def keyable(a):
    return not contains(a, lambda x: x[0] in ("pl", "pd", "ps") or (x[0] == "f" and x[1] == "nan"))


def uniq(items):
    seen, out = set(), []
    for x in items:
        k = hashable_key(x)
        if k not in seen:
            seen.add(k)
            out.append(x)
    return out


def uniq_kvs(kvs):
    seen, out = set(), []
    for k, v in kvs:
        kk = hashable_key(k)
        if kk not in seen:
            seen.add(kk)
            out.append([k, v])
    return out


def meta_maps():
    simple = st.one_of(st.integers(-3, 3).map(lambda n: ["i", n]), st.sampled_from([["s", "x\n"], ["k", None, "t"], ["b", True], ["nil"]]))
    key = st.one_of(st.tuples(st.one_of(st.none(), st.just("m.n")), st.sampled_from(["a", "b", "tag"])).map(lambda t: ["k", t[0], t[1]]))
    return st.one_of(st.none(), st.none(), st.lists(st.tuples(key, simple), min_size=1, max_size=2).map(
        lambda kvs: ["m", uniq_kvs([[k, v] for k, v in kvs])]))


def value_strategy():
    def extend(ch):
        keys = ch.filter(keyable)
        return st.one_of(
            st.tuples(st.lists(ch, max_size=6), meta_maps()).map(lambda t: ["l", t[0], t[1]]),
            st.tuples(st.lists(ch, max_size=6), meta_maps()).map(lambda t: ["v", t[0], t[1]]),
            st.tuples(st.lists(st.tuples(keys, ch), max_size=5), meta_maps()).map(lambda t: ["m", uniq_kvs(t[0]), t[1]]),
            st.tuples(st.lists(keys, max_size=5), meta_maps()).map(lambda t: ["e", uniq(t[0]), t[1]]),
            st.lists(ch, max_size=4).map(lambda xs: ["q", xs]),
            st.lists(ch, max_size=4).map(lambda xs: ["pl", xs]),
            st.lists(ch, max_size=4).map(lambda xs: ["pt", xs]),
            st.lists(st.tuples(keys, ch), max_size=3).map(lambda kvs: ["pd", uniq_kvs(kvs)]),
            st.lists(keys, max_size=3).map(lambda xs: ["ps", uniq(xs)]),
            # namespaced-key maps for *print-namespace-maps*
            st.lists(st.tuples(st.tuples(st.sampled_from(["n.s", "n.s", "o"]), st.sampled_from(["a", "b", "c"])).map(lambda t: ["k", t[0], t[1]]), ch), max_size=3)
            .map(lambda kvs: ["m", uniq_kvs(kvs), None]),
        )
    return st.recursive(scalar_leaves(), extend, max_leaves=14)


def boundary_floats():
    out = []
    for e in range(-324, 309):
        try:
            x = float(f"1e{e}")
        except (ValueError, OverflowError):
            continue
        if x == 0 or math.isinf(x):
            continue
        for y in (x, math.nextafter(x, math.inf), math.nextafter(x, -math.inf), -x, x * 1.2345678901234567):
            if y != 0 and not math.isinf(y):
                out.append(y)
    out += [5e-324, 1.7976931348623157e308, 2.2250738585072014e-308, 9007199254740993.0, 0.1 + 0.2]
    return out


def string_contexts(sv):
    s = ["s", sv]
    yield "bare", s
    yield "in-vector", ["v", [s, ["i", 1]], None]
    yield "map-key", ["m", [[s, ["s", sv]]], None]
    yield "meta", ["v", [], ["m", [[["k", None, "doc"], s]]]]


def shard(i, n, tier, seed, findings):
    rec = Recorder(ID)
    maxlen = 3
    idx = 0

    def guard(a, **kw):
        try:
            check_value(rec, a, **kw)
        except Violation as v:
            rec.violation(v.sig, v.case, v.detail, finding=attribute(v, a), findings=findings)

    full = [(False, False, False), (True, True, True)]
    for L in range(0, maxlen + 1):
        for tup in itertools.product(ALPHABET, repeat=L):
            idx += 1
            if idx % n != i:
                continue
            sv = "".join(tup)
            for ctx, a in string_contexts(sv):
                guard(a, configs=full if ctx != "bare" else CONFIGS, cls=f"string/{ctx}")
            if L <= 2 or tier == "thorough":
                try:
                    re.compile(sv)
                    guard(["re", sv], configs=full, cls="string/regex")
                except re.error:
                    pass
                bs = [ord(c) for c in sv if ord(c) < 256]
                guard(["by", bs], configs=full, cls="string/bytes")
    rec.exhaustive["strings<=3"] = True
    for j, x in enumerate(boundary_floats()):
        if j % n != i:
            continue
        guard(["f", repr(x)], configs=full, cls="float/boundary")
        guard(["c", repr(x)], configs=full, layers=("obj",), cls="complex/boundary") if j % 40 == i else None
    rec.exhaustive["boundary-floats"] = True

    def body(a):
        try:
            check_value(rec, a)
        except Violation as v:
            v.finding = attribute(v, a)
            raise

    hyp.drive(body, value_strategy(), rec=rec, findings=findings, seed=seed * 1000 + i,
              max_examples=120 if tier == "quick" else 4000,
              to_case=lambda a: {"kind": "value", "value": a})
    return rec


def regex_unprintable(p):
    """trigger of F-03e: the readable printer passes the pattern through unicode_escape (doubling
    backslashes, escaping non-ASCII/control characters) although regex literals are read raw"""
    return '"' in p or p.encode("unicode_escape") != p.encode("utf-8", "surrogatepass")


def rewrite(a, f):
    """rebuild the abstract value bottom-up through f"""
    t = a[0]
    if t in ("l", "v", "e"):
        b = [t, [rewrite(x, f) for x in a[1]]] + [rewrite(m, f) if m is not None else None for m in a[2:3]]
    elif t in ("q", "pl", "pt", "ps"):
        b = [t, [rewrite(x, f) for x in a[1]]]
    elif t == "m":
        b = [t, [[rewrite(k, f), rewrite(v, f)] for k, v in a[1]]] + [rewrite(m, f) if m is not None else None for m in a[2:3]]
    elif t == "pd":
        b = [t, [[rewrite(k, f), rewrite(v, f)] for k, v in a[1]]]
    elif t == "y" and len(a) > 3 and a[3] is not None:
        b = a[:3] + [rewrite(a[3], f)]
    else:
        b = list(a)
    return f(b)


def passes(a, configs=CONFIGS):
    try:
        check_value(Recorder(ID), a, configs=configs, count=False)
        return True
    except Violation:
        return False
    except Exception:  # noqa
        return False


def attribute(v, a):
    """known-finding attribution by *differential repair of the case*: the trigger sub-values are
    replaced by harmless ones; only if the repaired case passes is the deviation explained by the
    finding (so another defect in the same case is still reported)."""
    n = [0]

    def fix_re(x):
        if x[0] == "re" and regex_unprintable(x[1]):
            n[0] += 1
            return ["re", f"safe{n[0]}"]
        return x

    def fix_pd(x):
        if x[0] == "pd" and len(x[1]) > 1:
            return ["pd", x[1][:1]]
        return x

    had_re = contains(a, lambda x: x[0] == "re" and regex_unprintable(x[1]))
    if had_re:
        a = rewrite(a, fix_re)
        if passes(a):
            return "F-03e"
    if contains(a, lambda x: x[0] == "pd" and len(x[1]) > 1):
        if passes(rewrite(a, fix_pd)):
            return "F-03g" if v.sig.startswith("reprint-differs") or not had_re else "F-03e"
    return None


def replay(case):
    rec = Recorder(ID)
    a = case["value"]
    if "layer" in case:
        check_value(rec, a, layers=(case["layer"],), configs=[(case["dup"], case["meta"], case["nsmaps"])])
    else:
        check_value(rec, a)
