"""C18 — multimethod dispatch depends only on the current methods, preferences and hierarchy.

Histories of add/remove/remove-all/prefer/derive/underive over a universe of namespaced keywords,
Python classes and fixed-length vectors; after every step the multimethod is called with every
dispatch value and the outcome (which method ran / which kind of error) is compared with a
from-scratch reference resolution over a model of the method table, preference table and
hierarchy; isa?/parents/ancestors/descendants are compared with the model closure."""
from __future__ import annotations

import itertools

from hypothesis import strategies as st

from vlib import boot, hyp
from vlib.harness import Recorder, Violation, canon
from props import c01

ID = "C18"
MANIFEST = {
    "technique": "model-based history testing: exhaustive histories (length<=4 quick / <=5 thorough) over a 3-keyword core alphabet + Hypothesis histories to length 40 over 5 keywords, 3 classes and vectors; from-scratch reference dispatch and hierarchy closure; every dispatch value called after every step",
    "text": "stateful model-based search: every history of defmethod/remove-method/remove-all-methods/prefer-method/derive/underive is applied to a real MultiFunction with its own hierarchy ref and to a model (method set, preference pairs, derive edges); after every step every dispatch value is dispatched and the method tag / error kind must equal the reference resolution computed from scratch (so it cannot depend on insertion order or on what earlier calls cached), and isa?/parents/ancestors/descendants must equal the model closure; cyclic derivations must be rejected. Holds for the explored histories only.",
    "note": "isa? for a class follows the ancestors docstring (derive relationships of the class itself plus its superclasses); vectors are generated with one fixed length (the docstring is silent about different lengths); when two matching methods dominate each other (a preference contradicting isa?) the outcome is not prescribed and not compared",
    "engine": "E3 history machines",
}
LEVEL = "exploration"
NSHARDS = 16
RULE = ("exhaustive histories over a 17-op alphabet (3 keywords) up to length 4/5 + Hypothesis histories (<=40 ops; 5 keywords, 3 "
        "classes, 4 vectors); every dispatch value is called after every step. Non-trivial = some call's answer differs from "
        "the answer the same dispatch value got earlier in the history (a cached answer became wrong), or >=2 methods match; "
        "distinct by the op list.")
ASSUMPTIONS = [
    "preferences are the directly declared pairs (prefer-method x y)",
    "class tags: ancestors = derive relationships of the tag itself + its Python superclasses (ancestors docstring)",
]


class A:  # noqa
    pass


class B(A):  # noqa
    pass


class C:  # noqa
    pass


_S = {}


def S():
    if _S:
        return _S
    from basilisp.lang import keyword as kw, vector as vec, multifn, atom, symbol as sym, runtime
    d = dict(kw=kw, vec=vec, multifn=multifn, atom=atom, sym=sym, runtime=runtime)
    for n in ("derive", "underive", "isa?", "parents", "ancestors", "descendants", "make-hierarchy", "remove-method",
              "remove-all-methods", "prefer-method", "swap!", "deref", "identity"):
        d[n] = boot.core(n)
    k = lambda n: kw.keyword(n, ns="h")
    kws = [k("a"), k("b"), k("c"), k("d"), k("e")]
    classes = [A, B, C]
    vecs = [vec.vector([kws[0], kws[1]]), vec.vector([kws[1], kws[2]]), vec.vector([B, kws[0]]), vec.vector([A, kws[0]])]
    d["TAGS"] = kws + classes            # things that may be derived (index 0..7)
    d["PARENTS"] = kws                   # parents must be idents
    d["DVALS"] = kws + classes + vecs    # dispatch values (index 0..11)
    d["default"] = kw.keyword("default")
    _S.update(d)
    return _S


def name_of(x):
    s = S()
    if isinstance(x, type):
        return x.__name__
    if isinstance(x, s["vec"].PersistentVector):
        return "[" + " ".join(name_of(e) for e in x) + "]"
    return ":" + x.name


# ---- model ---------------------------------------------------------------------------------

class Model:
    def __init__(self):
        self.methods = set()       # dispatch value indices; -1 = :default
        self.prefs = set()         # (x, y): x preferred over y
        self.edges = set()         # (tag index, parent index into PARENTS)

    def derive_ancestors(self, t):
        """transitive closure of derive edges starting at tag index t (indices into TAGS)"""
        out, todo = set(), [t]
        while todo:
            x = todo.pop()
            for (c, p) in self.edges:
                if c == x and p not in out:
                    out.add(p)       # PARENTS index == TAGS index for keywords
                    todo.append(p)
        return out

    def ancestors(self, t):
        s = S()
        out = set(self.derive_ancestors(t))
        tag = s["TAGS"][t]
        if isinstance(tag, type):
            for i, other in enumerate(s["TAGS"]):
                if isinstance(other, type) and other is not tag and issubclass(tag, other):
                    out.add(i)
        return out

    def isa(self, x, y):
        """x, y: real values (dispatch values)"""
        s = S()
        if isinstance(x, s["vec"].PersistentVector) or isinstance(y, s["vec"].PersistentVector):
            if not (isinstance(x, s["vec"].PersistentVector) and isinstance(y, s["vec"].PersistentVector)):
                return False
            if x == y:
                return True
            return len(x) == len(y) and all(self.isa(a, b) for a, b in zip(x, y))
        if x is y or x == y:
            return True
        tags = s["TAGS"]
        if x in tags and y in tags:
            if tags.index(y) in self.ancestors(tags.index(x)):
                return True
        if isinstance(x, type) and isinstance(y, type):
            return issubclass(x, y)
        return False

    def precedes(self, x, y):
        return (x, y) in self.prefs or self.isa(S()["DVALS"][x], S()["DVALS"][y])

    def resolve(self, v):
        """-> ('method', idx) | ('default',) | ('no-method',) | ('ambiguous',) | ('unspecified',)"""
        dv = S()["DVALS"]
        M = [k for k in self.methods if k >= 0 and self.isa(dv[v], dv[k])]
        if not M:
            return ("default",) if -1 in self.methods else ("no-method",)
        best = [k for k in M if all(self.precedes(k, j) for j in M if j != k)]
        if len(best) == 1:
            return ("method", best[0])
        if not best:
            return ("ambiguous",)
        return ("unspecified",)


# ---- real ------------------------------------------------------------------------------------

class Real:
    def __init__(self):
        s = S()
        self.h = s["atom"].Atom(s["make-hierarchy"]())
        self.mf = s["multifn"].MultiFunction(s["sym"].symbol("vmf"), lambda v: v, s["default"], self.h)
        self.gen = {}

    def add(self, idx):
        s = S()
        key = s["default"] if idx < 0 else s["DVALS"][idx]
        # every (re-)definition installs a new body, told apart by a generation number: the body that answers a call
        # must be the one most recently given to its dispatch value (a re-defmethod replaces the old body for every
        # dispatch value that resolves to it, also for values whose resolution was cached by earlier calls)
        gen = self.gen[idx] = self.gen.get(idx, 0) + 1
        self.mf.add_method(key, (lambda tag, g: (lambda v: ("method", tag, g) if tag >= 0 else ("default", g)))(idx, gen))

    gen: dict = {}

    def call(self, v):
        s = S()
        try:
            r = self.mf(s["DVALS"][v])
            tag = r[1] if r[0] == "method" else -1
            if r[-1] != self.gen.get(tag):
                raise Violation("stale-method-body-invoked", None,
                                f"dispatch value #{v} was answered by body generation {r[-1]} of method {tag}, but that method was last defined as generation {self.gen.get(tag)}")
            return r[:-1]
        except NotImplementedError:
            return ("no-method",)
        except s["runtime"].RuntimeException as e:
            return ("ambiguous",)


OPS_DOC = "add k | remove k | remove-all | prefer x y | derive tag parent | underive tag parent"


def apply_op(real: Real, model: Model, op):
    """-> True if the op was applied, raises Violation when real and model disagree about acceptance"""
    s = S()
    dv, tags, parents = s["DVALS"], s["TAGS"], s["PARENTS"]
    name = op[0]
    if name == "add":
        k = op[1] if op[1] < 0 else op[1] % len(dv)
        real.add(k)
        model.methods.add(k)
    elif name == "remove":
        k = op[1] if op[1] < 0 else op[1] % len(dv)
        s["remove-method"](real.mf, s["default"] if k < 0 else dv[k])
        model.methods.discard(k)
    elif name == "remove-all":
        s["remove-all-methods"](real.mf)
        model.methods.clear()
    elif name == "prefer":
        x, y = op[1] % len(dv), op[2] % len(dv)
        if x == y:
            return
        want_reject = (y, x) in model.prefs
        try:
            s["prefer-method"](real.mf, dv[x], dv[y])
            rejected = False
        except Exception:  # noqa
            rejected = True
        if want_reject and not rejected:
            raise Violation("contradicting-preference-accepted", None, f"prefer {name_of(dv[x])} over {name_of(dv[y])} although the opposite preference exists")
        if rejected and not want_reject:
            # stricter rejection (e.g. a preference contradicting isa?) is not prescribed: leave the model unchanged
            return
        if not rejected:
            model.prefs.add((x, y))
    elif name == "derive":
        t, p = op[1] % len(tags), op[2] % len(parents)
        cyclic = t == p or (t < len(parents) and t in model.derive_ancestors(p)) or t == p
        try:
            s["swap!"](real.h, s["derive"], tags[t], parents[p])
            rejected = False
        except Exception:  # noqa
            rejected = True
        if cyclic and not rejected:
            raise Violation("cyclic-derivation-accepted", None, f"derive {name_of(tags[t])} from {name_of(parents[p])}")
        if rejected and not cyclic:
            raise Violation("valid-derivation-rejected", None, f"derive {name_of(tags[t])} from {name_of(parents[p])}")
        if not rejected:
            model.edges.add((t, p))
    elif name == "underive":
        t, p = op[1] % len(tags), op[2] % len(parents)
        s["swap!"](real.h, s["underive"], tags[t], parents[p])
        model.edges.discard((t, p))
    else:
        raise ValueError(op)


def check_hierarchy(real: Real, model: Model, step):
    s = S()
    h = s["deref"](real.h)
    tags = s["TAGS"]
    for t, tag in enumerate(tags):
        got = s["ancestors"](h, tag)
        got = set(got) if got is not None else set()
        want = {tags[i] for i in model.ancestors(t)}
        if isinstance(tag, type):
            got = {g for g in got if g in tags}    # object and other foreign supers are outside the universe
        if got != want:
            raise Violation("ancestors-differ", None, f"step {step}: ancestors of {name_of(tag)}: {sorted(map(name_of, got))}; model {sorted(map(name_of, want))}")
        gp = s["parents"](h, tag)
        gp = {g for g in (gp or ()) if g in tags}
        wp = {s["PARENTS"][p] for (c, p) in model.edges if c == t}
        if isinstance(tag, type):
            wp |= {b for b in tag.__bases__ if b in tags}
        if gp != wp:
            raise Violation("parents-differ", None, f"step {step}: parents of {name_of(tag)}: {sorted(map(name_of, gp))}; model {sorted(map(name_of, wp))}")
        if not isinstance(tag, type):
            gd = s["descendants"](h, tag)
            gd = set(gd) if gd is not None else set()
            wd = {tags[c] for c in range(len(tags)) if t in model.derive_ancestors(c)}
            if gd != wd:
                raise Violation("descendants-differ", None, f"step {step}: descendants of {name_of(tag)}: {sorted(map(name_of, gd))}; model {sorted(map(name_of, wd))}")
    dv = s["DVALS"]
    for x in dv:
        for y in dv:
            if bool(s["isa?"](h, x, y)) != model.isa(x, y):
                raise Violation("isa?-differs", None, f"step {step}: (isa? {name_of(x)} {name_of(y)}) is {bool(s['isa?'](h, x, y))}; model {model.isa(x, y)}")


def run_history(rec, ops, dvals=None, sub="random", count=True):
    s = S()
    real, model = Real(), Model()
    dvals = dvals if dvals is not None else list(range(len(s["DVALS"])))
    last = {}
    changed = False
    multi = False
    case = {"kind": "history", "ops": ops}
    try:
        for step, op in enumerate(ops):
            apply_op(real, model, op)
            if op[0] in ("derive", "underive"):
                check_hierarchy(real, model, step)
            for v in dvals:
                want = model.resolve(v)
                got = real.call(v)
                if want[0] == "unspecified":
                    rec.count("mutually_dominating_matches_not_compared")
                    continue
                if got != want:
                    kind = "stale-or-wrong-dispatch" if v in last and last[v] == got else "wrong-dispatch"
                    raise Violation(f"{kind}:{want[0]}->{got[0]}", None,
                                    f"step {step} ({op}): dispatch value {name_of(s['DVALS'][v])}: real {describe(got)}; reference {describe(want)}; "
                                    f"methods {sorted(describe(('method', k)) if k >= 0 else ':default' for k in model.methods)} prefs {sorted(model.prefs)} edges {sorted(model.edges)}")
                if v in last and last[v] != got:
                    changed = True
                last[v] = got
                if len([k for k in model.methods if k >= 0 and model.isa(s["DVALS"][v], s["DVALS"][k])]) >= 2:
                    multi = True
    except Violation as v:
        v.case = case
        raise
    if count:
        cls = []
        if changed:
            cls.append("answer-changed-during-history")
        if multi:
            cls.append(">=2-matching-methods")
        rec.case(canon(ops), nontrivial=changed or multi, cls=cls or ["plain"], sample=ops, sub=sub)


def describe(r):
    if r[0] == "method":
        return "method " + name_of(S()["DVALS"][r[1]])
    return r[0]


SMALL_OPS = [["add", 0], ["add", 1], ["add", 2], ["add", -1], ["remove", 0], ["remove", 1], ["prefer", 0, 1], ["prefer", 1, 0],
             ["prefer", 1, 2], ["derive", 0, 1], ["derive", 1, 2], ["derive", 0, 2], ["derive", 2, 0], ["underive", 0, 1],
             ["underive", 1, 2], ["remove-all"], ["add", 8]]


def shard(i, n, tier, seed, findings):
    c01.quiet_logging()
    rec = Recorder(ID)
    S()
    length = 4 if tier == "quick" else 5
    idx = 0
    for L in range(1, length + 1):
        for combo in itertools.product(range(len(SMALL_OPS)), repeat=L):
            idx += 1
            if idx % n != i:
                continue
            ops = [SMALL_OPS[c] for c in combo]
            try:
                run_history(rec, ops, dvals=[0, 1, 2, 3, 8], sub="exhaustive")
            except Violation as v:
                rec.violation(v.sig, v.case, v.detail, finding=v.finding, findings=findings)
    rec.exhaustive[f"histories<=len{length}"] = True

    # structured histories deeper than the exhaustive bound: diamonds and chains under every
    # assignment of the 5 keywords to the roles (the method table iterates in hash order, so the role
    # assignment decides in which order matching methods are visited)
    scen = 0
    for perm in itertools.permutations(range(5), 4):
        a, b, c, d = perm
        shapes = [
            [["derive", c, a], ["derive", c, b], ["derive", d, c], ["add", a], ["add", b], ["add", c]],
            [["add", a], ["add", b], ["derive", c, a], ["derive", c, b], ["derive", d, c], ["add", c]],
            [["add", a], ["add", b], ["derive", d, a], ["derive", d, b], ["prefer", a, b]],
            [["add", a], ["add", b], ["derive", d, a], ["derive", d, b], ["prefer", b, a], ["remove", b]],
            [["derive", b, a], ["derive", c, b], ["derive", d, c], ["add", a], ["add", c], ["add", b], ["remove", c], ["underive", c, b]],
            [["add", a], ["derive", d, a], ["add", -1], ["underive", d, a], ["derive", d, b], ["add", b], ["remove-all"], ["add", -1]],
        ]
        for ops in shapes:
            scen += 1
            if scen % n != i:
                continue
            try:
                run_history(rec, ops, sub="structured")
            except Violation as v:
                rec.violation(v.sig, v.case, v.detail, finding=v.finding, findings=findings)

    k = st.integers(0, 11)
    op = st.one_of(
        st.tuples(st.just("add"), st.one_of(k, st.just(-1))),
        st.tuples(st.just("add"), k),
        st.tuples(st.just("remove"), st.one_of(k, st.just(-1))),
        st.tuples(st.just("prefer"), k, k),
        st.tuples(st.just("derive"), st.integers(0, 7), st.integers(0, 4)),
        st.tuples(st.just("derive"), st.integers(0, 7), st.integers(0, 4)),
        st.tuples(st.just("underive"), st.integers(0, 7), st.integers(0, 4)),
        st.just(("remove-all",)),
    ).map(list)

    def body(ops):
        run_history(rec, ops)

    hyp.drive(body, st.lists(op, min_size=1, max_size=40), rec=rec, findings=findings, seed=seed * 1000 + i,
              max_examples=250 if tier == "quick" else 5000, to_case=lambda ops: {"kind": "history", "ops": ops})
    return rec


def replay(case):
    c01.quiet_logging()
    rec = Recorder(ID)
    S()
    run_history(rec, case["ops"], count=False)
