"""C04 — persistent collections are immutable values that behave like their model.

Histories are lists of operations over a growing table of values (any earlier value may be the
target of a later operation: branching).  Every value carries a plain Python model (tuple / dict /
frozenset / deque-like tuple + metadata).  After every step the new value is compared with its
model; at the end EVERY value ever produced is re-checked (so a later operation on a descendant, or
a transient round trip, cannot have changed it).  Bounded exhaustive enumeration of short histories
+ Hypothesis histories up to length 60 with 33+ elements and hash-colliding keys."""
from __future__ import annotations

import itertools

from hypothesis import strategies as st

from vlib import boot, hyp
from vlib.harness import Recorder, Violation, canon
from props import c01

ID = "C04"
MANIFEST = {
    "technique": "model-based history testing: bounded exhaustive enumeration of operation histories (length<=3 quick / <=4-5 thorough over a 3-key universe with colliding hashes) + Hypothesis branching histories to length 60; Python tuple/dict/frozenset model, full re-check of every earlier value at the end",
    "text": "stateful model-based search: operation histories over vectors, maps, sets, lists and queues (conj assoc dissoc disj pop peek into empty with-meta vary-meta update merge seq/nth/get/contains? count, transient + conj!/assoc!/dissoc!/disj!/pop! + persistent!) are applied to the real collections through basilisp.core and to a plain Python model; each result and, at the end of the history, every value ever produced (including sources of transients and results of persistent!) is compared with its model by full scan, count, lookups of every universe key, = and hash against a freshly built equal value; metadata is checked not to affect =/hash and with-meta to carry exactly the given map. Holds only for the explored histories.",
    "note": "keys avoid the bool/number collision of the known finding C05/F-05c (no booleans as keys); whether metadata is carried over by other operations is not claimed by the statement and not checked",
    "engine": "E3 history machines",
}
LEVEL = "exploration"
NSHARDS = 16
RULE = ("exhaustive op histories (length<=3 quick, <=4 thorough; target = latest or previous value) per collection kind over a "
        "3-key universe with two hash-colliding keys + Hypothesis histories (<=60 ops, into with ranges up to 70). Non-trivial = the "
        "history re-reads an earlier value after a later operation on a descendant, or has a transient round trip, or exceeds 32 "
        "elements / hits a hash collision; distinct by the op list.")
ASSUMPTIONS = [
    "Python tuple/dict/frozenset semantics are the reference model",
    "a transient may or may not raise when used after persistent! (docs: 'may throw'); either way the persistent result must not change",
    "booleans are not used as map keys / set members (known finding C05/F-05c)",
]

KINDS = ["vector", "list", "map", "set", "queue"]


class K:
    """key with a controlled hash (K0 and K1 collide) and identity-like equality"""
    __slots__ = ("name", "h")

    def __init__(self, name, h):
        self.name, self.h = name, h

    def __hash__(self):
        return self.h

    def __eq__(self, other):
        return isinstance(other, K) and other.name == self.name

    def __repr__(self):
        return f"#K{self.name}"


_S = {}


def S():
    if _S:
        return _S
    from basilisp.lang import keyword as kw, vector as vec, list as llist, map as lmap, set as lset, queue as lqueue
    d = dict(kw=kw, vec=vec, llist=llist, lmap=lmap, lset=lset, lqueue=lqueue)
    for n in ("conj", "assoc", "dissoc", "disj", "pop", "peek", "into", "empty", "with-meta", "vary-meta", "update", "merge",
              "seq", "nth", "get", "contains?", "count", "transient", "conj!", "assoc!", "dissoc!", "disj!", "pop!",
              "persistent!", "=", "hash", "meta", "range", "fnil", "inc", "first", "map-entry"):
        d[n] = boot.core(n)
    d["inc0"] = d["fnil"](d["inc"], 0)
    d["identity"] = boot.core("identity")
    d["KEYS"] = [K("0", 7), K("1", 7), K("2", 8), 0, 1, 33, kw.keyword("a"), "s", None]
    _S.update(d)
    return _S


NKEYS = 9


def key(i):
    return S()["KEYS"][i % NKEYS]


def elem(i):
    """element values (not keys): may be booleans too"""
    return [0, 1, True, False, None, "x", 33][i % 7]


class Val:
    __slots__ = ("kind", "real", "model", "meta", "origin")

    def __init__(self, kind, real, model, meta=None, origin=None):
        self.kind, self.real, self.model, self.meta, self.origin = kind, real, model, meta, origin


def empty_of(kind):
    s = S()
    if kind == "vector":
        return Val(kind, s["vec"].EMPTY, ())
    if kind == "list":
        return Val(kind, s["llist"].EMPTY, ())
    if kind == "map":
        return Val(kind, s["lmap"].EMPTY, {})
    if kind == "set":
        return Val(kind, s["lset"].EMPTY, frozenset())
    return Val(kind, s["lqueue"].EMPTY, ())


def build_fresh(kind, model):
    s = S()
    if kind == "vector":
        return s["vec"].vector(list(model))
    if kind == "list":
        return s["llist"].list(list(model))
    if kind == "map":
        m = s["lmap"].EMPTY
        for k, v in model.items():
            m = m.assoc(k, v)
        return m
    if kind == "set":
        return s["lset"].set(list(model))
    return s["lqueue"].queue(list(model))


def same(a, b):
    if isinstance(a, bool) or isinstance(b, bool) or a is None or b is None:
        return a is b
    return a == b


def compare(val: Val, step, where):
    """full comparison of a real value with its model"""
    s = S()
    real, model, kind = val.real, val.model, val.kind
    n = s["count"](real)
    if n != len(model):
        raise Violation(f"count-differs:{kind}", None, f"{where}: step {step}: count {n}, model {len(model)}")
    sq = s["seq"](real)
    items = list(sq) if sq is not None else []
    if kind in ("vector", "list", "queue"):
        if len(items) != len(model) or not all(same(x, y) for x, y in zip(items, model)):
            raise Violation(f"contents-differ:{kind}", None, f"{where}: step {step}: {items!r} vs model {list(model)!r}")
        for i in range(len(model)):
            if kind != "queue" and not same(s["nth"](real, i), model[i]):
                raise Violation(f"nth-differs:{kind}", None, f"{where}: step {step}: (nth v {i})")
        if kind == "vector":
            for i in (0, len(model) - 1, len(model), len(model) + 3):
                want = model[i] if 0 <= i < len(model) else None
                if not same(s["get"](real, i), want) or bool(s["contains?"](real, i)) != (0 <= i < len(model)):
                    raise Violation("get/contains?-differs:vector", None, f"{where}: step {step}: index {i}")
        pk = s["peek"](real)
        want = None if not model else (model[-1] if kind == "vector" else model[0])
        if not same(pk, want):
            raise Violation(f"peek-differs:{kind}", None, f"{where}: step {step}: peek {pk!r}, model {want!r}")
    elif kind == "map":
        got = {}
        for e in items:
            got[e[0]] = e[1]
        if len(got) != len(model) or any(k not in got or not same(got[k], v) for k, v in model.items()):
            raise Violation("contents-differ:map", None, f"{where}: step {step}: {got!r} vs model {model!r}")
        for k in s["KEYS"]:
            want = model.get(k)
            if not same(s["get"](real, k), want) or bool(s["contains?"](real, k)) != (k in model):
                raise Violation("lookup-differs:map", None, f"{where}: step {step}: key {k!r}: get {s['get'](real, k)!r} contains? {s['contains?'](real, k)}; model {want!r} {k in model}")
    else:
        got = set(items)
        if len(items) != len(model) or got != set(model):
            raise Violation("contents-differ:set", None, f"{where}: step {step}: {items!r} vs model {set(model)!r}")
        for k in s["KEYS"]:
            if bool(s["contains?"](real, k)) != (k in model):
                raise Violation("lookup-differs:set", None, f"{where}: step {step}: member {k!r}")
    fresh = build_fresh(kind, model)
    if not s["="](real, fresh) or not s["="](fresh, real):
        raise Violation(f"not-equal-to-fresh-equal-value:{kind}", None, f"{where}: step {step}")
    if s["hash"](real) != s["hash"](fresh):
        raise Violation(f"hash-differs-from-fresh-equal-value:{kind}", None, f"{where}: step {step}")
    m = s["meta"](real)
    want_meta = val.meta
    if val.meta is not None or val.origin == "with-meta":
        if not s["="](m, want_meta):
            raise Violation(f"metadata-differs:{kind}", None, f"{where}: step {step}: meta {m!r}, expected {want_meta!r}")


def expect_raise(f, *args):
    try:
        f(*args)
    except Exception:  # noqa
        return True
    return False


def model_conj(kind, model, x):
    if kind in ("vector", "queue"):
        return model + (x,)
    if kind == "list":
        return (x,) + model
    if kind == "set":
        return model | {x}
    raise ValueError


def apply_op(vals, op, step):
    """apply one op; append resulting Val(s) to vals. Returns a set of class labels."""
    s = S()
    name = op[0]
    tgt = vals[op[1] % len(vals)]
    kind, real, model = tgt.kind, tgt.real, tgt.model
    labels = set()
    if op[1] % len(vals) != len(vals) - 1:
        labels.add("earlier-value-picked-up-again")

    def push(r, m, meta="keep", origin=None):
        vals.append(Val(kind, r, m, tgt.meta if meta == "keep" else meta, origin))

    if name == "conj":
        if kind == "map":
            k, v = key(op[2]), elem(op[3])
            d = dict(model)
            d[k] = v
            push(s["conj"](real, s["vec"].vector([k, v])), d, None)
        elif kind == "set":
            push(s["conj"](real, key(op[2])), model_conj(kind, model, key(op[2])), None)
        else:
            push(s["conj"](real, elem(op[2])), model_conj(kind, model, elem(op[2])), None)
    elif name == "assoc":
        if kind == "map":
            d = dict(model)
            d[key(op[2])] = elem(op[3])
            push(s["assoc"](real, key(op[2]), elem(op[3])), d, None)
        elif kind == "vector":
            i = op[2] % (len(model) + 2)
            if i <= len(model):
                m2 = model[:i] + (elem(op[3]),) + model[i + 1:]
                push(s["assoc"](real, i, elem(op[3])), m2, None)
            elif not expect_raise(s["assoc"], real, i, elem(op[3])):
                raise Violation("assoc-out-of-range-accepted", None, f"step {step}: (assoc v {i} ..) on a vector of {len(model)}")
        else:
            return labels
    elif name == "dissoc" and kind == "map":
        d = dict(model)
        d.pop(key(op[2]), None)
        push(s["dissoc"](real, key(op[2])), d, None)
    elif name == "disj" and kind == "set":
        push(s["disj"](real, key(op[2])), model - {key(op[2])}, None)
    elif name == "many":
        # the variadic forms: (conj c x y z) (assoc m k v k v) (dissoc m k k k) (disj s k k k) = the one-argument
        # form applied from left to right; members and non-members in any order
        ks = [key(i) for i in op[2]]
        if kind == "set":
            if op[3] % 2:
                push(s["disj"](real, *ks), model - set(ks), None)
            else:
                push(s["conj"](real, *ks), model | set(ks), None)
        elif kind == "map":
            d = dict(model)
            if op[3] % 2:
                for k in ks:
                    d.pop(k, None)
                push(s["dissoc"](real, *ks), d, None)
            else:
                kvs = []
                for j, k in enumerate(ks):
                    d[k] = elem(op[3] + j)
                    kvs += [k, elem(op[3] + j)]
                push(s["assoc"](real, *kvs), d, None)
        else:
            m2 = model
            for i in op[2]:
                m2 = model_conj(kind, m2, elem(i))
            push(s["conj"](real, *[elem(i) for i in op[2]]), m2, None)
        labels.add("variadic")
    elif name == "pop" and kind in ("vector", "list", "queue"):
        if not model:
            if not expect_raise(s["pop"], real):
                raise Violation(f"pop-of-empty-accepted:{kind}", None, f"step {step}")
        else:
            push(s["pop"](real), model[:-1] if kind == "vector" else model[1:], None)
    elif name == "into":
        n = op[2] % 71
        src = s["range"](n)
        if kind == "map":
            src = s["vec"].vector([s["vec"].vector([i, i + 1]) for i in range(n)])
            d = dict(model)
            for i in range(n):
                d[i] = i + 1
            m2 = d
        elif kind == "set":
            m2 = model | set(range(n))
        elif kind == "list":
            m2 = tuple(reversed(range(n))) + model
        else:
            m2 = model + tuple(range(n))
        push(s["into"](real, src), m2, None)
        if len(m2) > 32:
            labels.add("more-than-32-elements")
    elif name == "into-from":
        other = vals[op[2] % len(vals)]
        if other.kind == "map" and kind != "map" or kind == "map" and other.kind != "map":
            return labels
        if kind == "map":
            d = dict(model)
            d.update(other.model)
            m2 = d
        elif kind == "set":
            m2 = model | set(other.model)
        else:
            if other.kind == "set":
                # a set has no order of its own: take the order its seq really has
                sq_ = s["seq"](other.real)
                src_items = list(sq_) if sq_ is not None else []
                if sorted(map(repr, src_items)) != sorted(map(repr, other.model)):
                    raise Violation("contents-differ:set", None, f"step {step}: seq of the source set is not its model")
            else:
                src_items = list(other.model)
            m2 = tuple(reversed(src_items)) + model if kind == "list" else model + tuple(src_items)
        if kind == "set" and any(isinstance(x, bool) for x in m2):
            return labels
        if kind == "set" and other.kind != "set" and any(not _hashable_key(x) for x in other.model):
            return labels
        push(s["into"](real, other.real), m2, None)
    elif name == "empty":
        push(s["empty"](real), type(model)() if not isinstance(model, dict) else {}, None)
    elif name == "with-meta":
        # {:m k}, the empty map, or nil: the result carries exactly what was given
        meta = [None, s["lmap"].EMPTY][op[2] % 5 - 3] if op[2] % 5 >= 3 else s["lmap"].map({s["kw"].keyword("m"): op[2] % 5})
        push(s["with-meta"](real, meta), model, meta, "with-meta")
        labels.add("with-meta")
    elif name == "vary-meta":
        r = s["vary-meta"](real, s["assoc"], s["kw"].keyword("v"), 1)
        # whether other operations carry metadata over is not claimed: start from the metadata the
        # target really has
        base = s["meta"](real)
        base = base if base is not None else s["lmap"].EMPTY
        push(r, model, s["assoc"](base, s["kw"].keyword("v"), 1), "with-meta")
    elif name == "update" and kind == "map":
        k = key(op[2])
        cur = model.get(k)
        if op[2] % 3 == 1:
            # an updater that hands back what it was given: (update m k identity) still associates k, also when k
            # was absent (then with nil)
            d = dict(model)
            d[k] = cur
            push(s["update"](real, k, s["identity"]), d, None)
            labels.add("update-identity" + ("-absent" if k not in model else ""))
            return labels
        if cur is not None and (isinstance(cur, bool) or not isinstance(cur, int)):
            return labels
        d = dict(model)
        d[k] = (cur or 0) + 1
        push(s["update"](real, k, s["inc0"]), d, None)
    elif name == "merge" and kind == "map":
        other = vals[op[2] % len(vals)]
        if other.kind != "map":
            return labels
        d = dict(model)
        d.update(other.model)
        push(s["merge"](real, other.real), d, None)
    elif name == "transient" and kind in ("vector", "map", "set"):
        labels.add("transient-round-trip")
        t = s["transient"](real)
        m = model if not isinstance(model, dict) else dict(model)
        for mo in op[2]:
            if kind == "vector":
                if mo[0] == "conj!":
                    t = s["conj!"](t, elem(mo[1]))
                    m = m + (elem(mo[1]),)
                elif mo[0] == "assoc!" and len(m) > 0:
                    i = mo[1] % len(m)
                    t = s["assoc!"](t, i, elem(mo[2]))
                    m = m[:i] + (elem(mo[2]),) + m[i + 1:]
                elif mo[0] == "pop!" and len(m) > 0:
                    t = s["pop!"](t)
                    m = m[:-1]
            elif kind == "map":
                if mo[0] in ("assoc!", "conj!"):
                    t = s["assoc!"](t, key(mo[1]), elem(mo[2]))
                    m[key(mo[1])] = elem(mo[2])
                elif mo[0] == "dissoc!":
                    t = s["dissoc!"](t, key(mo[1]))
                    m.pop(key(mo[1]), None)
            else:
                if mo[0] in ("conj!", "assoc!"):
                    t = s["conj!"](t, key(mo[1]))
                    m = m | {key(mo[1])}
                elif mo[0] in ("disj!", "dissoc!"):
                    t = s["disj!"](t, key(mo[1]))
                    m = m - {key(mo[1])}
        p = s["persistent!"](t)
        push(p, m, None)
        # further use of the transient may raise; it must never change the persistent result
        try:
            if kind == "vector":
                s["conj!"](t, "after")
            elif kind == "map":
                s["assoc!"](t, key(0), "after")
            else:
                s["conj!"](t, "after")
        except Exception:  # noqa
            pass
    else:
        return labels
    return labels


def _hashable_key(x):
    return not isinstance(x, bool)


def run_history(rec, kind0, ops, count=True):
    """ops over a table that starts with the 5 empty collections (index 0..4); kind0 only labels"""
    vals = [empty_of(k) for k in KINDS]
    labels = set()
    case = {"kind": "history", "ops": ops}
    try:
        for step, op in enumerate(ops):
            before = len(vals)
            labels |= apply_op(vals, op, step)
            for v in vals[before:]:
                compare(v, step, "new value")
                if any(isinstance(k, K) for k in (v.model if isinstance(v.model, (dict, frozenset)) else ())) and \
                        len([k for k in (v.model if isinstance(v.model, (dict, frozenset)) else ()) if isinstance(k, K) and k.h == 7]) == 2:
                    labels.add("hash-collision")
        # teardown: every value ever produced is re-checked against its model
        for idx, v in enumerate(vals):
            compare(v, len(ops), f"re-check of value #{idx} ({v.kind}) at the end")
    except Violation as v:
        v.case = case
        raise
    if count:
        nontriv = bool(labels & {"earlier-value-picked-up-again", "transient-round-trip", "more-than-32-elements", "hash-collision"})
        rec.case(canon(ops), nontrivial=nontriv, cls=sorted(labels) or ["linear-history"], sample=ops, sub=kind0)


def small_ops(kind_idx, kind):
    """op alphabet for exhaustive enumeration; target index t is relative: -1 latest of this kind chain"""
    ops = []
    if kind == "vector":
        for e in (0, 2):
            ops.append(("conj", e))
        ops += [("assoc", 0, 1), ("assoc", 1, 3), ("pop",), ("into", 2), ("into", 34), ("empty",), ("with-meta", 1),
                ("transient", (("conj!", 1), ("pop!",))), ("transient", (("assoc!", 0, 2), ("conj!", 0)))]
    elif kind == "list":
        ops += [("conj", 0), ("conj", 2), ("pop",), ("into", 3), ("empty",), ("with-meta", 1)]
    elif kind == "queue":
        ops += [("conj", 0), ("conj", 2), ("pop",), ("into", 3), ("into", 34), ("empty",), ("with-meta", 1)]
    elif kind == "map":
        for k in (0, 1, 2):
            ops += [("assoc", k, k), ("dissoc", k)]
        ops += [("conj", 1, 4), ("update", 3), ("into", 34), ("empty",), ("with-meta", 1), ("merge", None),
                ("transient", (("assoc!", 0, 1), ("assoc!", 1, 2), ("dissoc!", 0))), ("transient", (("dissoc!", 1),))]
    else:
        for k in (0, 1, 2):
            ops += [("conj", k), ("disj", k)]
        ops += [("into", 34), ("empty",), ("with-meta", 1), ("many", (1, 0), 1), ("many", (2, 0), 0),
                ("transient", (("conj!", 0), ("conj!", 1), ("disj!", 0))), ("transient", (("disj!", 1),))]
    if kind in ("vector", "map"):
        ops += [("with-meta", 3), ("with-meta", 4), ("many", (2, 0), 1)]
    return ops


def exhaustive_histories(kind_idx, kind, length):
    alphabet = small_ops(kind_idx, kind)
    for L in range(1, length + 1):
        for combo in itertools.product(alphabet, repeat=L):
            # target choice per step: latest value of the chain, or the one before it
            for targets in itertools.product((0, 1), repeat=L):
                chain = [kind_idx]      # indices (into vals) of values of this kind produced so far
                ops = []
                nvals = 5
                ok = True
                for o, tsel in zip(combo, targets):
                    if tsel == 1 and len(chain) < 2:
                        ok = False
                        break
                    t = chain[-1 - tsel]
                    if o[0] == "merge":
                        o2 = ["merge", t, chain[0] if len(chain) < 2 else chain[-2]]
                    elif o[0] == "transient":
                        o2 = ["transient", t, [list(m) for m in o[1]]]
                    else:
                        o2 = [o[0], t] + list(o[1:])
                    ops.append(o2)
                    # ops that certainly append one value; pop of empty / out of range append none:
                    chain.append(None)
                    nvals += 1
                if ok:
                    yield combo, targets


def run_exhaustive_case(rec, kind_idx, kind, combo, targets):
    """re-derive concrete target indices while executing (some ops produce no value)"""
    vals_count = 5
    chain = [kind_idx]
    ops = []
    # dry execution to know which ops append: run against the real thing step by step
    vals = [empty_of(k) for k in KINDS]
    labels = set()
    case_ops = []
    try:
        for step, (o, tsel) in enumerate(zip(combo, targets)):
            if tsel == 1 and len(chain) < 2:
                return
            t = chain[-1 - tsel]
            if o[0] == "merge":
                o2 = ["merge", t, chain[0] if len(chain) < 2 else chain[-2]]
            elif o[0] == "transient":
                o2 = ["transient", t, [list(m) for m in o[1]]]
            else:
                o2 = [o[0], t] + list(o[1:])
            case_ops.append(o2)
            before = len(vals)
            labels |= apply_op(vals, o2, step)
            if tsel == 1:
                labels.add("earlier-value-picked-up-again")
            for v in vals[before:]:
                compare(v, step, "new value")
            if len(vals) > before:
                chain.append(len(vals) - 1)
        for idx, v in enumerate(vals):
            compare(v, len(combo), f"re-check of value #{idx} ({v.kind}) at the end")
    except Violation as v:
        v.case = {"kind": "history", "ops": case_ops}
        raise
    nontriv = bool(labels & {"earlier-value-picked-up-again", "transient-round-trip", "more-than-32-elements"})
    rec.case(canon(case_ops), nontrivial=nontriv, cls=sorted(labels) or ["linear-history"], sample=case_ops, sub="exhaustive/" + kind)


def shard(i, n, tier, seed, findings):
    c01.quiet_logging()
    rec = Recorder(ID)
    S()
    length = 3 if tier == "quick" else 4
    idx = 0
    for kind_idx, kind in enumerate(KINDS):
        for combo, targets in exhaustive_histories(kind_idx, kind, length):
            idx += 1
            if idx % n != i:
                continue
            try:
                run_exhaustive_case(rec, kind_idx, kind, combo, targets)
            except Violation as v:
                rec.violation(v.sig, v.case, v.detail, finding=v.finding, findings=findings)
            except Exception as e:  # noqa
                v = hyp.classify_exception(e, {"kind": "exhaustive", "coll": kind, "combo": [list(map(_jsonable, o)) for o in combo],
                                               "targets": list(targets)})
                if v is None:
                    raise
                rec.violation(v.sig, v.case, v.detail, findings=findings)
    rec.exhaustive[f"histories<=len{length}"] = True

    mutop = st.one_of(
        st.tuples(st.just("conj!"), st.integers(0, 8), st.integers(0, 6)),
        st.tuples(st.just("assoc!"), st.integers(0, 8), st.integers(0, 6)),
        st.tuples(st.just("dissoc!"), st.integers(0, 8)),
        st.tuples(st.just("disj!"), st.integers(0, 8)),
        st.tuples(st.just("pop!")),
    ).map(list)
    tgt = st.integers(0, 200)
    op = st.one_of(
        st.tuples(st.just("conj"), tgt, st.integers(0, 8), st.integers(0, 6)),
        st.tuples(st.just("assoc"), tgt, st.integers(0, 40), st.integers(0, 6)),
        st.tuples(st.just("dissoc"), tgt, st.integers(0, 8)),
        st.tuples(st.just("disj"), tgt, st.integers(0, 8)),
        st.tuples(st.just("pop"), tgt),
        st.tuples(st.just("into"), tgt, st.sampled_from([0, 1, 5, 31, 32, 33, 34, 64, 65, 70])),
        st.tuples(st.just("into-from"), tgt, tgt),
        st.tuples(st.just("empty"), tgt),
        st.tuples(st.just("with-meta"), tgt, st.integers(0, 4)),
        st.tuples(st.just("many"), tgt, st.lists(st.integers(0, 8), min_size=2, max_size=4), st.integers(0, 7)),
        st.tuples(st.just("vary-meta"), tgt),
        st.tuples(st.just("update"), tgt, st.integers(0, 8)),
        st.tuples(st.just("merge"), tgt, tgt),
        st.tuples(st.just("transient"), tgt, st.lists(mutop, max_size=6)),
    ).map(list)

    def body(ops):
        run_history(rec, "random", ops)

    hyp.drive(body, st.lists(op, min_size=1, max_size=60), rec=rec, findings=findings, seed=seed * 1000 + i,
              max_examples=300 if tier == "quick" else 6000, to_case=lambda ops: {"kind": "history", "ops": ops})
    return rec


def replay(case):
    c01.quiet_logging()
    rec = Recorder(ID)
    S()
    run_history(rec, "replay", case["ops"], count=False)


def _jsonable(x):
    if isinstance(x, tuple):
        return [_jsonable(y) for y in x]
    return x
