"""C19 — EDN, JSON and bencode codecs invert themselves and never mis-frame.

EDN: every value of the writer's documented domain written by write-string reads back, through
basilisp.edn/read-string AND through basilisp.core/read-string, as an equal value of the same type.
JSON: read-str(write-str v) equals coerce(v), a model of the documented key/collection coercions.
bencode: decode(encode v) = [norm(v) nil]; for a stream of messages cut at EVERY byte position,
decode-all returns exactly the messages wholly inside the prefix, in order, and the untouched
remaining bytes; arbitrary bytes never raise out of decode."""
from __future__ import annotations

import datetime
import itertools
import math
import uuid

from hypothesis import strategies as st

from vlib import boot, hyp
from vlib.harness import Recorder, Violation, canon, cpu_limit, CpuBudgetExceeded
from props import c01

ID = "C19"
MANIFEST = {
    "technique": "Hypothesis recursive value generation per codec domain + exhaustive escape-alphabet strings (len<=3) + exhaustive cut positions of generated bencode streams + random byte strings; round-trip oracle with type-exact comparison, coercion model for JSON, framing oracle for bencode (prefix-free code)",
    "text": "random and bounded-exhaustive round-trip search per codec: EDN values of the writer's documented domain through write-string and both readers; JSON values against a model of the documented coercions; bencode values through encode/decode, every cut position of every generated message stream through decode-all (complete messages in order + untouched remainder), and random/mutated byte strings through decode (must never raise). All strings up to length 3 over an escape-relevant alphabet are enumerated for every codec.",
    "note": "domains are the documented ones: EDN = types EDNEncodeable is extended to (no ratios/decimals/queues); JSON keys are strings or un-namespaced keywords/symbols (the default key-fn is name); bencode = ints, byte strings, strings, idents, lists/vectors, maps with string/ident keys",
    "engine": "E2 data universes",
}
LEVEL = "exploration"
NSHARDS = 16
RULE = ("Hypothesis values per codec (nesting<=4) + all strings len<=3 over the escape alphabet per codec + every cut position of every "
        "generated bencode stream (1-6 messages) + random bytes. Non-trivial = the value has an escape-relevant string or nesting>=2, "
        "or the cut falls strictly inside a message; distinct by (codec, encoded text / stream+cut).")
ASSUMPTIONS = [
    "EDN/bencode/JSON domains as documented by the writer protocols and docstrings",
    "NaN is compared as NaN == NaN; map/set order is irrelevant",
]

ALPHABET = ['"', "\\", "\n", "\t", "\r", "\0", "\x1f", "\x7f", "é", "中", "\U0001f600", "a", "0", "u", " ", "/"]

_S = {}


def S():
    if _S:
        return _S
    import importlib
    from basilisp.lang import keyword as kw, symbol as sym, vector as vec, list as llist, map as lmap, set as lset, runtime
    d = dict(kw=kw, sym=sym, vec=vec, llist=llist, lmap=lmap, lset=lset, runtime=runtime)
    ses = boot.Session()
    ses.eval("(require '[basilisp.edn :as edn] '[basilisp.json :as json] '[basilisp.contrib.bencode :as bc])")
    d["ses"] = ses
    for name, src in (("edn-write", "edn/write-string"), ("edn-read", "edn/read-string"), ("core-read", "read-string"),
                      ("json-write", "json/write-str"), ("json-read", "json/read-str"), ("bc-encode", "bc/encode"),
                      ("bc-decode", "(fn [b] (bc/decode b {}))"), ("bc-decode-all", "bc/decode-all"),
                      ("bc-decode-kw", "(fn [b] (bc/decode b {:keywordize-keys true}))")):
        d[name] = ses.eval(src)
    _S.update(d)
    return _S


# ---- abstract values ["nil"] ["b",x] ["i",n] ["f",repr] ["s",str] ["k",ns,name] ["y",ns,name] ["u",hex] ["t",iso]
#                      ["l",[..]] ["v",[..]] ["m",[[k,v]..]] ["e",[..]] ["by",[ints]]

def build(a):
    s = S()
    t = a[0]
    if t == "nil":
        return None
    if t == "b":
        return bool(a[1])
    if t == "i":
        return int(a[1])
    if t == "f":
        return float(a[1])
    if t == "s":
        return a[1]
    if t == "k":
        return s["kw"].keyword(a[2], ns=a[1])
    if t == "y":
        return s["sym"].symbol(a[2], ns=a[1])
    if t == "u":
        return uuid.UUID(a[1])
    if t == "t":
        return datetime.datetime.fromisoformat(a[1])
    if t == "by":
        return bytes(a[1])
    if t == "l":
        return s["llist"].list([build(x) for x in a[1]])
    if t == "v":
        return s["vec"].vector([build(x) for x in a[1]])
    if t == "m":
        m = s["lmap"].EMPTY
        for k, v in a[1]:
            m = m.assoc(build(k), build(v))
        return m
    if t == "e":
        return s["lset"].set([build(x) for x in a[1]])
    raise ValueError(a)


def same(x, y, path="v"):
    """type-exact structural comparison; None if same else description"""
    s = S()
    if type(x) is not type(y):
        return f"{path}: type {type(x).__name__} became {type(y).__name__} ({x!r} -> {y!r})"
    if isinstance(x, float):
        if math.isnan(x) or math.isnan(y):
            return None if math.isnan(x) and math.isnan(y) else f"{path}: {x!r} became {y!r}"
        return None if x == y and math.copysign(1, x) == math.copysign(1, y) else f"{path}: {x!r} became {y!r}"
    if isinstance(x, (s["vec"].PersistentVector, s["llist"].PersistentList, list, tuple)):
        if len(x) != len(y):
            return f"{path}: length {len(x)} became {len(y)}"
        for i, (p, q) in enumerate(zip(x, y)):
            r = same(p, q, f"{path}[{i}]")
            if r:
                return r
        return None
    if isinstance(x, (s["lmap"].PersistentMap, dict)):
        if len(x) != len(y):
            return f"{path}: size {len(x)} became {len(y)}"
        for k, v in x.items():
            for k2, v2 in y.items():
                if same(k, k2) is None:
                    r = same(v, v2, f"{path}{{{k!r}}}")
                    if r:
                        return r
                    break
            else:
                return f"{path}: key {k!r} lost"
        return None
    if isinstance(x, s["lset"].PersistentSet):
        if len(x) != len(y):
            return f"{path}: size {len(x)} became {len(y)}"
        for e in x:
            if not any(same(e, e2) is None for e2 in y):
                return f"{path}: member {e!r} lost"
        return None
    return None if x == y else f"{path}: {x!r} became {y!r}"


def interesting(a):
    t = a[0]
    if t == "s":
        return any(ord(c) > 126 or ord(c) < 32 or c in '"\\' for c in a[1])
    if t in ("l", "v", "e"):
        return any(x[0] in ("l", "v", "e", "m") or interesting(x) for x in a[1])
    if t == "m":
        return any(v[0] in ("l", "v", "e", "m") or interesting(k) or interesting(v) for k, v in a[1])
    return t in ("f", "u", "t", "by")


# ---- EDN -------------------------------------------------------------------------------------

def check_edn(rec, a, cls="edn"):
    s = S()
    v = build(a)
    case = {"kind": "edn", "value": a}
    try:
        text = s["edn-write"](v)
    except Exception as e:  # noqa
        raise Violation(f"edn-writer-raises:{type(e).__name__}", case, repr(e)[:300])
    rec.case("edn:" + text, nontrivial=interesting(a), cls=cls, sample={"value": a, "text": text}, sub="edn")
    for rd in ("edn-read", "core-read"):
        try:
            back = s[rd](text)
        except Exception as e:  # noqa
            fid = None
            if rd == "edn-read" and "Found '.' in keyword name" in str(e) and has_dotted_keyword(a):
                # differential repair: the same value without the dotted keyword names must pass
                try:
                    check_edn(Recorder(ID), undot(a))
                    fid = "F-19a"
                except Violation:
                    fid = None
            raise Violation(f"edn-text-unreadable:{rd}", case, f"{text!r}: {type(e).__name__}: {str(e)[:200]}", finding=fid)
        r = same(v, back)
        if r:
            raise Violation(f"edn-round-trip-differs:{rd}:{sig_of(r)}", case, f"text {text!r} via {rd}: {r}")
    if s["edn-write"](v) != text:
        raise Violation("edn-write-not-deterministic", case, text)


def has_dotted_keyword(a):
    """trigger of the known finding F-19a: a keyword whose *name* contains a dot"""
    t = a[0]
    if t == "k":
        return "." in a[2]
    if t in ("l", "v", "e"):
        return any(has_dotted_keyword(x) for x in a[1])
    if t == "m":
        return any(has_dotted_keyword(k) or has_dotted_keyword(v) for k, v in a[1])
    return False


def undot(a):
    t = a[0]
    if t == "k":
        return ["k", a[1], a[2].replace(".", "-dot-")]
    if t in ("l", "v", "e"):
        return [t, [undot(x) for x in a[1]]]
    if t == "m":
        return [t, [[undot(k), undot(v)] for k, v in a[1]]]
    return a


def sig_of(r):
    import re
    m = re.search(r"type (\w+) became (\w+)", r)
    if m:
        return f"type {m.group(1)}->{m.group(2)}"
    for w in ("length", "size", "key", "member"):
        if f": {w} " in r:
            return w
    return "value"


# ---- JSON ------------------------------------------------------------------------------------

def json_coerce(a):
    """model of the documented coercions: maps -> maps with string keys (key-fn = name), lists/sets/vectors
    -> vectors, keywords/symbols -> strings incl. namespace; scalars unchanged"""
    s = S()
    t = a[0]
    if t in ("nil", "b", "i", "f", "s"):
        return build(a)
    if t in ("k", "y"):
        return (a[1] + "/" if a[1] else "") + a[2]
    if t in ("l", "v"):
        return s["vec"].vector([json_coerce(x) for x in a[1]])
    if t == "m":
        m = s["lmap"].EMPTY
        for k, v in a[1]:
            kk = k[1] if k[0] == "s" else k[2]
            m = m.assoc(kk, json_coerce(v))
        return m
    raise ValueError(a)


def check_json(rec, a, cls="json"):
    s = S()
    v = build(a)
    case = {"kind": "json", "value": a}
    try:
        text = s["json-write"](v)
    except Exception as e:  # noqa
        raise Violation(f"json-writer-raises:{type(e).__name__}", case, repr(e)[:300])
    rec.case("json:" + text, nontrivial=interesting(a), cls=cls, sample={"value": a, "text": text}, sub="json")
    try:
        back = s["json-read"](text)
    except Exception as e:  # noqa
        raise Violation("json-text-unreadable", case, f"{text!r}: {type(e).__name__}: {str(e)[:200]}")
    r = same(json_coerce(a), back)
    if r:
        raise Violation(f"json-round-trip-differs:{sig_of(r)}", case, f"text {text!r}: {r}")


# ---- bencode ---------------------------------------------------------------------------------

def bc_norm(a):
    """what decode returns for an encoded value: strings/idents -> utf-8 bytes, lists/vectors -> vectors,
    maps -> maps with byte-string keys, nil -> b"" """
    s = S()
    t = a[0]
    if t == "nil":
        return b""
    if t == "i":
        return int(a[1])
    if t == "s":
        return a[1].encode("utf-8")
    if t == "by":
        return bytes(a[1])
    if t in ("k", "y"):
        return ((a[1] + "/" if a[1] else "") + a[2]).encode("utf-8")
    if t in ("l", "v"):
        return s["vec"].vector([bc_norm(x) for x in a[1]])
    if t == "m":
        m = s["lmap"].EMPTY
        for k, v in a[1]:
            m = m.assoc(bc_norm(k), bc_norm(v))
        return m
    raise ValueError(a)


def bc_key(k):
    return bc_norm(k)


def check_bencode_value(rec, a, cls="bencode"):
    s = S()
    v = build(a)
    case = {"kind": "bencode", "value": a}
    try:
        enc = s["bc-encode"](v)
    except Exception as e:  # noqa
        raise Violation(f"bencode-encode-raises:{type(e).__name__}", case, repr(e)[:300])
    rec.case("bc:" + enc.hex(), nontrivial=interesting(a), cls=cls, sample={"value": a, "encoded": repr(enc)}, sub="bencode-value")
    try:
        with cpu_limit(5):
            out = s["bc-decode"](enc)
    except CpuBudgetExceeded:
        v = Violation("bencode-decode-does-not-terminate", case, f"decode of {enc!r} used more than 5 s of CPU time")
        v.expensive = True
        raise v
    val, rest = out[0], out[1]
    if rest is not None and len(rest) != 0:
        raise Violation("bencode-rest-not-empty", case, f"{enc!r} decoded with rest {rest!r}")
    r = same(bc_norm(a), val)
    if r:
        raise Violation(f"bencode-round-trip-differs:{sig_of(r)}", case, f"{enc!r}: {r}")
    return enc


def check_bencode_stream(rec, msgs):
    """msgs: list of abstract values; every cut position of the concatenated encodings"""
    s = S()
    encs = [s["bc-encode"](build(a)) for a in msgs]
    stream = b"".join(encs)
    bounds = list(itertools.accumulate(len(e) for e in encs))
    wants = [bc_norm(a) for a in msgs]
    for cut in range(0, len(stream) + 1):
        prefix = stream[:cut]
        ncomplete = sum(1 for b in bounds if b <= cut)
        inside = cut not in ([0] + bounds)
        case = {"kind": "bencode-stream", "msgs": msgs, "cut": cut}
        rec.case(f"bcs:{stream.hex()}:{cut}", nontrivial=inside, cls="bencode-stream/cut-inside" if inside else "bencode-stream/cut-at-boundary",
                 sample={"stream": repr(stream), "cut": cut} if cut == len(stream) // 2 else None, sub="bencode-stream")
        try:
            with cpu_limit(5):
                out = s["bc-decode-all"](prefix)
        except CpuBudgetExceeded:
            v = Violation("bencode-decode-all-does-not-terminate", case, f"decode-all of the prefix {prefix!r} used more than 5 s of CPU time (a complete call takes milliseconds)")
            v.expensive = True
            raise v
        except Exception as e:  # noqa
            raise Violation(f"bencode-decode-all-raises:{type(e).__name__}", case, f"prefix {prefix!r}: {e!r}"[:300])
        items, rest = list(out[0]), out[1]
        if len(items) != ncomplete:
            raise Violation("bencode-mis-framed:message-count", case,
                            f"prefix {prefix!r} holds {ncomplete} complete messages but decode-all returned {len(items)}: {items!r}")
        for j, (got, want) in enumerate(zip(items, wants)):
            r = same(want, got)
            if r:
                raise Violation("bencode-mis-framed:message-differs", case, f"prefix {prefix!r}: message {j}: {r}")
        start = bounds[ncomplete - 1] if ncomplete else 0
        remainder = prefix[start:]
        got_rest = b"" if rest is None else bytes(rest)
        if got_rest != remainder:
            raise Violation("bencode-mis-framed:remainder", case, f"prefix {prefix!r}: remainder {got_rest!r}, expected the untouched bytes {remainder!r}")


def check_bencode_bytes(rec, data):
    s = S()
    case = {"kind": "bencode-bytes", "data": list(data)}
    rec.case("bcb:" + data.hex(), nontrivial=True, cls="bencode-bytes", sub="bencode-bytes")
    for fn in ("bc-decode", "bc-decode-kw", "bc-decode-all"):
        try:
            with cpu_limit(5):
                out = s[fn](data)
        except CpuBudgetExceeded:
            v = Violation("bencode-decode-does-not-terminate", case, f"{fn}({data!r}) used more than 5 s of CPU time")
            v.expensive = True
            raise v
        except RecursionError:
            continue
        except Exception as e:  # noqa
            raise Violation(f"bencode-decode-raises:{type(e).__name__}", case, f"{fn}({data!r}) raised {e!r}"[:300])
        # what decode returns for malformed (not merely truncated) input is not prescribed: only
        # "never raises" is checked here; framing of valid streams is check_bencode_stream's job


# ---- generators ------------------------------------------------------------------------------

def strs():
    return st.one_of(st.text(alphabet=ALPHABET, max_size=5), st.text(max_size=5),
                     st.text(alphabet=st.characters(min_codepoint=0, max_codepoint=0x2ff), max_size=4)).map(lambda x: ["s", x])


IDENT = st.sampled_from(["a", "b-c", "x?", "k1", "*v*", "with.dot"])
NS = st.one_of(st.none(), st.sampled_from(["n", "my.ns"]))


def uniq(kvs, keyf=canon):
    seen, out = set(), []
    for k, v in kvs:
        kk = keyf(k)
        if kk not in seen:
            seen.add(kk)
            out.append([k, v])
    return out


def uniq_items(xs, keyf=canon):
    seen, out = set(), []
    for x in xs:
        kk = keyf(x)
        if kk not in seen:
            seen.add(kk)
            out.append(x)
    return out


def edn_key(a):
    """equality key: ints/floats equal across types (1 == 1.0), so normalise"""
    if a[0] == "i":
        return ("n", float(a[1]) if abs(int(a[1])) < 2 ** 53 else a[1])
    if a[0] == "f":
        return ("n", float(a[1]))
    if a[0] == "b":
        return ("n", float(a[1]))
    if a[0] in ("l", "v"):
        return ("seq", tuple(edn_key(x) for x in a[1]))
    return canon(a)


def edn_values():
    scal = st.one_of(
        st.just(["nil"]), st.booleans().map(lambda b: ["b", b]), st.integers(-2 ** 70, 2 ** 70).map(lambda n: ["i", n]),
        st.integers(-5, 5).map(lambda n: ["i", n]),
        st.sampled_from(["0.0", "-0.0", "1.5", "1e+23", "1e-07", "5e-324", "1.7976931348623157e+308", "inf", "-inf", "nan", "0.1"]).map(lambda x: ["f", x]),
        st.floats(allow_nan=False).map(lambda x: ["f", repr(x)]),
        strs(), st.tuples(NS, IDENT).map(lambda t: ["k", t[0], t[1]]), st.tuples(NS, IDENT).map(lambda t: ["y", t[0], t[1]]),
        st.uuids().map(lambda u: ["u", str(u)]),
        st.datetimes(min_value=datetime.datetime(1900, 1, 1), max_value=datetime.datetime(2200, 1, 1),
                     timezones=st.one_of(st.none(), st.just(datetime.timezone.utc))).map(lambda d: ["t", d.isoformat()]),
    )

    def keyable(a):
        return not (a[0] == "f" and a[1] == "nan") and all(keyable(x) for x in (a[1] if a[0] in ("l", "v", "e") else []))

    def extend(ch):
        keys = ch.filter(keyable)
        return st.one_of(
            st.lists(ch, max_size=4).map(lambda xs: ["l", xs]), st.lists(ch, max_size=4).map(lambda xs: ["v", xs]),
            st.lists(st.tuples(keys, ch), max_size=4).map(lambda kvs: ["m", uniq(kvs, edn_key)]),
            st.lists(keys, max_size=4).map(lambda xs: ["e", uniq_items(xs, edn_key)]))
    return st.recursive(scal, extend, max_leaves=12)


def json_values():
    scal = st.one_of(st.just(["nil"]), st.booleans().map(lambda b: ["b", b]), st.integers(-2 ** 60, 2 ** 60).map(lambda n: ["i", n]),
                     st.floats(allow_nan=False, allow_infinity=False).map(lambda x: ["f", repr(x)]), strs(),
                     st.tuples(NS, IDENT).map(lambda t: ["k", t[0], t[1]]))
    jkey = st.one_of(strs(), IDENT.map(lambda n: ["k", None, n]), IDENT.map(lambda n: ["y", None, n]))

    def extend(ch):
        return st.one_of(st.lists(ch, max_size=4).map(lambda xs: ["l", xs]), st.lists(ch, max_size=4).map(lambda xs: ["v", xs]),
                         st.lists(st.tuples(jkey, ch), max_size=4).map(lambda kvs: ["m", uniq(kvs, lambda k: k[1] if k[0] == "s" else k[2])]))
    return st.recursive(scal, extend, max_leaves=12)


def bc_values():
    scal = st.one_of(st.integers(-2 ** 70, 2 ** 70).map(lambda n: ["i", n]), st.integers(-3, 12).map(lambda n: ["i", n]), strs(),
                     st.lists(st.one_of(st.integers(0, 255), st.sampled_from([58, 101, 105, 108, 100, 48, 49])), max_size=6).map(lambda b: ["by", b]),
                     st.tuples(NS, IDENT).map(lambda t: ["k", t[0], t[1]]), st.tuples(NS, IDENT).map(lambda t: ["y", t[0], t[1]]), st.just(["nil"]))
    bkey = st.one_of(strs(), st.tuples(NS, IDENT).map(lambda t: ["k", t[0], t[1]]), st.tuples(NS, IDENT).map(lambda t: ["y", t[0], t[1]]))

    def extend(ch):
        return st.one_of(st.lists(ch, max_size=4).map(lambda xs: ["l", xs]), st.lists(ch, max_size=4).map(lambda xs: ["v", xs]),
                         st.lists(st.tuples(bkey, ch), max_size=4).map(lambda kvs: ["m", uniq(kvs, lambda k: bytes(bc_key(k)).hex())]))
    return st.recursive(scal, extend, max_leaves=10)


def shard(i, n, tier, seed, findings):
    c01.quiet_logging()
    rec = Recorder(ID)
    S()

    def guard(f, *a, **kw):
        try:
            f(rec, *a, **kw)
        except Violation as v:
            rec.violation(v.sig, v.case, v.detail, finding=v.finding, findings=findings)

    idx = 0
    for L in range(0, 4):
        for tup in itertools.product(ALPHABET, repeat=L):
            idx += 1
            if idx % n != i:
                continue
            sv = "".join(tup)
            guard(check_edn, ["s", sv], cls="edn/string")
            guard(check_edn, ["m", [[["s", sv], ["v", [["s", sv]]]]]], cls="edn/string-in-map")
            guard(check_json, ["v", [["s", sv], ["m", [[["s", sv], ["s", sv]]]]]], cls="json/string")
            guard(check_bencode_value, ["m", [[["s", sv], ["l", [["s", sv]]]]]], cls="bencode/string")
    rec.exhaustive["strings<=3"] = True

    ex = 150 if tier == "quick" else 4000
    hyp.drive(lambda a: check_edn(rec, a), edn_values(), rec=rec, findings=findings, seed=seed * 1000 + i, max_examples=ex,
              to_case=lambda a: {"kind": "edn", "value": a})
    hyp.drive(lambda a: check_json(rec, a), json_values(), rec=rec, findings=findings, seed=seed * 1000 + i + 17, max_examples=ex,
              to_case=lambda a: {"kind": "json", "value": a})
    hyp.drive(lambda a: check_bencode_value(rec, a), bc_values(), rec=rec, findings=findings, seed=seed * 1000 + i + 31, max_examples=ex,
              to_case=lambda a: {"kind": "bencode", "value": a})
    hyp.drive(lambda ms: check_bencode_stream(rec, ms), st.lists(bc_values(), min_size=1, max_size=6), rec=rec, findings=findings,
              seed=seed * 1000 + i + 47, max_examples=max(20, ex // 4), to_case=lambda ms: {"kind": "bencode-stream", "msgs": ms})
    rawb = st.one_of(st.binary(max_size=24),
                     st.lists(st.sampled_from([b"i", b"e", b"l", b"d", b":", b"1", b"3", b"0", b"-", b"a", b"\xff", b"12:", b"i5e", b"le", b"de"]), max_size=10).map(b"".join))
    hyp.drive(lambda b: check_bencode_bytes(rec, b), rawb, rec=rec, findings=findings, seed=seed * 1000 + i + 59, max_examples=ex * 2,
              to_case=lambda b: {"kind": "bencode-bytes", "data": list(b)})
    return rec


def replay(case):
    c01.quiet_logging()
    rec = Recorder(ID)
    S()
    k = case["kind"]
    if k == "edn":
        check_edn(rec, case["value"])
    elif k == "json":
        check_json(rec, case["value"])
    elif k == "bencode":
        check_bencode_value(rec, case["value"])
    elif k == "bencode-stream":
        check_bencode_stream(rec, case["msgs"])
    else:
        check_bencode_bytes(rec, bytes(case["data"]))
