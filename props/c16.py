"""C16 — the reader is total, classifies incomplete input, and reports true locations.

Generators: (1) every string up to a length bound over the reader's delimiter/dispatch alphabet;
(2) valid programs generated from a grammar (atoms incl. multi-byte text, collections, prefixes,
dispatch forms, comments; LF / CRLF / CR line endings), every prefix and every single-character
edit of them; (3) every top-level form of the bundled .lpy sources with sampled prefixes.
Oracles: totality (forms or a SyntaxError carrying line and col; only Lisp data in forms), EOF
classification against an independent pushdown scanner (vlib/scanner.py), span fidelity (the text
of the reported span re-reads to an equal form)."""
from __future__ import annotations

import datetime
import itertools
import os
import re
import uuid
from decimal import Decimal
from fractions import Fraction

from hypothesis import strategies as st

from vlib import boot, hyp, scanner
from vlib.harness import Recorder, Violation, canon
from props import c01

ID = "C16"
MANIFEST = {
    "technique": "exhaustive short strings over a delimiter/dispatch alphabet + Hypothesis grammar-generated programs with all prefixes and single-character edits under LF/CRLF/CR + bundled sources; totality, data-only forms, EOF classification against an independent pushdown scanner, span re-read round trip",
    "text": "bounded-exhaustive and random search over reader inputs: all strings up to length 4 (quick) / 5 (thorough) over a 20-character alphabet of delimiters, prefixes and dispatch characters, plus grammar-generated valid programs with every prefix and every single-character edit, and the top-level forms of the bundled .lpy files; each read must end in forms made only of Lisp data or in a SyntaxError with line and column; where an independent scanner can classify the text, 'a form is still owed' must be reported as UnexpectedEOFError and complete-but-mismatched text must not; every collection/symbol read from plain text must carry a span whose text re-reads to an equal form.",
    "note": "the scanner only predicts the EOF class for a sub-grammar it knows exactly (other inputs are checked for totality only); #() function literals and syntax-quoted forms are excluded from span equality (gensyms differ between two reads)",
    "engine": "E6 reader scanner",
}
LEVEL = "exploration"
NSHARDS = 16
RULE = ("(1) all strings <= length bound over the alphabet; (2) Hypothesis programs from the reader grammar, each with all prefixes, "
        "single-character edits and 3 line-ending styles; (3) bundled .lpy top-level forms with prefixes. Non-trivial = the input "
        "exercises a dispatch/prefix character, a line break, or a multi-byte character; distinct by text.")
ASSUMPTIONS = [
    "the EOF classification oracle applies only where the independent scanner knows the grammar exactly",
    "span equality is not required of #() literals and syntax-quoted forms (their gensyms differ per read)",
    "a trailing #_ discard macro at end of input is not classified (not listed in the statement)",
]

ALPHABET = ["(", ")", "[", "]", "{", "}", '"', "'", "@", "~", "^", "#", "\\", "a", "1", " ", "_", "`", ":", "\n"]

_S = {}


def S():
    if _S:
        return _S
    from basilisp.lang import reader, runtime, keyword as kw, symbol as sym, vector as vec, list as llist, \
        map as lmap, set as lset, queue as lqueue
    from basilisp.lang.interfaces import ISeq, IPersistentMap, IPersistentSet, IPersistentVector, IPersistentList
    from basilisp.lang.tagged import TaggedLiteral
    d = dict(reader=reader, runtime=runtime, kw=kw, sym=sym, vec=vec, llist=llist, lmap=lmap, lset=lset, lqueue=lqueue,
             ISeq=ISeq, IPersistentMap=IPersistentMap, IPersistentSet=IPersistentSet, IPersistentVector=IPersistentVector,
             IPersistentList=IPersistentList, TaggedLiteral=TaggedLiteral)
    d["ATOMS"] = (type(None), bool, int, float, complex, Fraction, Decimal, str, bytes, kw.Keyword, sym.Symbol,
                  re.Pattern, uuid.UUID, datetime.datetime)
    d["LINE"], d["COL"], d["ELINE"], d["ECOL"] = reader.READER_LINE_KW, reader.READER_COL_KW, reader.READER_END_LINE_KW, reader.READER_END_COL_KW
    _S.update(d)
    return _S


def read(text):
    """-> ("forms", [forms]) | ("eof", exc) | ("syntax", exc); anything else escapes as an exception"""
    s = S()
    try:
        return ("forms", list(s["reader"].read_str(text)))
    except s["reader"].UnexpectedEOFError as e:
        return ("eof", e)
    except s["reader"].SyntaxError as e:
        return ("syntax", e)


def read_with_caller_eof(text):
    """the same text read the way basilisp.core/read-string and read do: the caller supplies its own end-of-input
    value (core passes the keyword :eofthrow). The value chosen by the caller must not change what is read."""
    s = S()
    sentinel = s["kw"].keyword("eofthrow")
    try:
        return ("forms", list(s["reader"].read_str(text, eof=sentinel)))
    except s["reader"].UnexpectedEOFError as e:
        return ("eof", e)
    except s["reader"].SyntaxError as e:
        return ("syntax", e)


def only_data(form, depth=0):
    """None if the form is made of Lisp data only, else a description of the foreign object"""
    s = S()
    if depth > 200:
        return None
    if isinstance(form, s["ATOMS"]):
        return None
    if isinstance(form, (s["IPersistentMap"], dict)):
        for k, v in form.items():
            r = only_data(k, depth + 1) or only_data(v, depth + 1)
            if r:
                return r
        return None
    if isinstance(form, (s["IPersistentVector"], s["IPersistentList"], s["IPersistentSet"], s["ISeq"], s["lqueue"].PersistentQueue,
                         list, tuple, set, frozenset)):
        for x in form:
            r = only_data(x, depth + 1)
            if r:
                return r
        return None
    if isinstance(form, s["TaggedLiteral"]):
        return only_data(form.form, depth + 1)
    return f"{type(form).__module__}.{type(form).__name__} object {form!r:.60}"


def _same_forms(a, b):
    if len(a) != len(b):
        return False
    try:
        return all(type(x) is type(y) and (x == y or repr(x) == repr(y)) for x, y in zip(a, b))
    except Exception:  # noqa - exotic forms that cannot be compared are not this relation's business
        return True


def text_class(text):
    cls = []
    if any(c in text for c in "'`@~^#\\"):
        cls.append("prefix-or-dispatch")
    if "\n" in text or "\r" in text:
        cls.append("line-break")
    if any(ord(c) > 127 for c in text):
        cls.append("multi-byte")
    return cls


def check_text(rec, text, origin, expect_valid=False, spans=False, count=True):
    s = S()
    case = {"kind": "text", "text": text, "origin": origin}
    cls = text_class(text)
    if count:
        rec.case(text, nontrivial=bool(cls), cls=[origin] + cls, sample=text if len(text) < 200 else text[:200], sub=origin)
    try:
        kind, val = read(text)
    except RecursionError:
        rec.count("recursion_limit_inputs")
        return None
    except Exception as e:  # noqa
        raise Violation(f"reader-raises:{type(e).__name__}", case, f"read_str({text!r}) raised {type(e).__name__}: {str(e)[:200]}")
    if kind == "forms":
        for f in val:
            bad = only_data(f)
            if bad:
                raise Violation("form-contains-non-data", case, f"read_str({text!r}) returned a form containing {bad}")
    else:
        if val.line is None or val.col is None:
            raise Violation("syntax-error-without-location", case, f"read_str({text!r}) raised {type(val).__name__} without line/col: {val}")
    # metamorphic: a caller-supplied end-of-input value (as core's read-string/read/read-seq pass) changes nothing
    try:
        kind2, val2 = read_with_caller_eof(text)
    except RecursionError:
        kind2, val2 = kind, val
    except Exception as e:  # noqa
        raise Violation(f"reader-raises:{type(e).__name__}:caller-eof", case, f"read_str({text!r}, eof=:eofthrow) raised {type(e).__name__}: {str(e)[:200]}")
    if kind2 != kind or (kind == "forms" and len(val) != len(val2)):
        raise Violation("caller-eof-value-changes-reading", case,
                        f"read_str({text!r}) gave {kind} {repr(val)[:120]} but with a caller-supplied eof value {kind2} {repr(val2)[:120]}")
    v = scanner.scan(text)
    if v.kind == "incomplete" and kind != "eof":
        got = "forms " + repr(val)[:80] if kind == "forms" else f"a plain SyntaxError ({val})"
        raise Violation(f"owed-form-not-reported-as-eof:{v.why.split()[0]}", case,
                        f"text {text!r} stops where a form is still owed ({v.why}) but the reader gave {got}")
    if v.kind in ("complete", "mismatch") and kind == "eof":
        raise Violation("complete-text-reported-as-eof", case, f"text {text!r} is {v.kind} ({v.why}) but the reader raised UnexpectedEOFError: {val}")
    if v.kind == "mismatch" and kind == "forms":
        raise Violation("mismatched-delimiter-accepted", case, f"text {text!r}: {v.why}, but the reader returned forms")
    if expect_valid and kind != "forms":
        raise Violation("valid-program-rejected", case, f"{text!r}: {type(val).__name__}: {val}")
    if spans and kind == "forms":
        check_spans(text, val, case)
    return kind


def check_spans(text, forms, case):
    s = S()
    offs = scanner.offsets(text)

    def walk(f, quoted=False):
        # the four literal collection types and symbols (not values built by data readers such as #queue)
        if isinstance(f, (s["vec"].PersistentVector, s["llist"].PersistentList, s["lset"].PersistentSet, s["lmap"].PersistentMap,
                          s["sym"].Symbol)) and not isinstance(f, s["vec"].MapEntry):
            m = f.meta
            line = m.val_at(s["LINE"]) if m is not None else None
            if line is None:
                if isinstance(f, s["sym"].Symbol):
                    return   # a symbol synthesized by a reader macro ('x -> (quote x)) is not in the text
                raise Violation("form-without-span", case, f"{f!r} read from {text!r} carries no line/col metadata")
            a = offs.get((m.val_at(s["LINE"]), m.val_at(s["COL"])))
            b = offs.get((m.val_at(s["ELINE"]), m.val_at(s["ECOL"])))
            if a is None or b is None or not (0 <= a < b <= len(text)):
                raise Violation("span-outside-text", case, f"{f!r}: span {(m.val_at(s['LINE']), m.val_at(s['COL']), m.val_at(s['ELINE']), m.val_at(s['ECOL']))} does not address text {text!r}")
            piece = text[a:b]
            try:
                again = list(s["reader"].read_str(piece))
            except Exception as e:  # noqa
                raise Violation("span-text-unreadable", case, f"{f!r}: span text {piece!r} (of {text!r}) does not read: {type(e).__name__}: {e}")
            if len(again) != 1 or not s["runtime"].equals(again[0], f):
                raise Violation("span-text-reads-differently", case, f"{f!r}: span text {piece!r} re-reads as {again!r}")
        if isinstance(f, s["IPersistentMap"]):
            for k, v in f.items():
                walk(k)
                walk(v)
        elif isinstance(f, (s["IPersistentVector"], s["IPersistentList"], s["IPersistentSet"])):
            for x in f:
                walk(x)

    for f in forms:
        walk(f)


# ---- grammar-based generator of valid programs ---------------------------------------------------

def ws():
    return st.sampled_from([" ", " ", " ", "\n", ", ", "  ", "\n  ", " ; note\n", "\t"])


def atoms():
    ident = st.sampled_from(["a", "b-c", "x?", "ns.q/sym", "+", "->v", "*e*", "é", "変数", "a.b/c-d"])
    return st.one_of(
        st.integers(-20, 300).map(str), st.sampled_from(["1.5", "-0.25", "3/4", "1e3", "2.5e-3", "0x1F", "017", "2r101", "1N", "1.5M", "2J"]),
        st.sampled_from(["nil", "true", "false", "##Inf", "##-Inf"]),
        ident, ident.map(lambda x: ":" + x), st.sampled_from(["::k", "\\a", "\\newline", "\\space", "\\u03A9", "\\é"]),
        st.text(alphabet=st.sampled_from(list("ab é中😀\n\t")), max_size=5).map(lambda t: '"' + t.replace("\n", "\\n").replace("\t", "\\t") + '"'),
        st.sampled_from(['"a\\"b"', '"\\\\"', '"multi\nline"', '#"\\d+"', '#"a|b"', '#uuid "81f35603-0408-4b3d-bbc0-462e3702747f"',
                         '#inst "2018-11-28T12:43:25.477-00:00"', '#b "ab\\x00"', '"\\u03A9"']),
    )


def forms_strategy(spans_safe=True):
    def extend(ch):
        seq_of = lambda lo, hi: st.lists(st.tuples(ch, ws()), min_size=lo, max_size=hi).map(lambda xs: "".join(a + b for a, b in xs).rstrip(" \t,") if xs else "")
        pairs = st.lists(st.tuples(st.sampled_from([":a", ":b", "1", '"k"', "sym", ":c/d"]), ws(), ch, ws()), max_size=3,
                         unique_by=lambda t: t[0]).map(lambda xs: "".join(k + w1 + v + w2 for k, w1, v, w2 in xs).rstrip(" \t,"))
        uniq = st.lists(st.sampled_from(["1", "2", ":a", "x", '"s"', "[1]", "nil"]), max_size=3, unique=True).map(" ".join)
        opts = [
            seq_of(0, 4).map(lambda b: "(" + b + ")"),
            seq_of(0, 4).map(lambda b: "[" + b + "]"),
            pairs.map(lambda b: "{" + b + "}"),
            uniq.map(lambda b: "#{" + b + "}"),
            ch.map(lambda f: "'" + f), ch.map(lambda f: "@" + f), ch.map(lambda f: "#'" + "sym"),
            st.tuples(st.sampled_from(["^:m ", "^{:a 1} ", "^sym ", "^:a ^:b "]), st.sampled_from(["[1 2]", "(f x)", "{:k 1}", "#{1}", "sym"])).map("".join),
            st.tuples(ws(), ch).map(lambda t: "#_" + t[1] + " " + "kept"),
            seq_of(0, 3).map(lambda b: "#py [" + b + "]"), seq_of(0, 3).map(lambda b: "#queue (" + b + ")"),
            pairs.map(lambda b: "#py {" + b + "}"),
            ch.map(lambda f: "#?(:lpy " + f + " :default 0)"),
        ]
        if not spans_safe:
            opts += [st.lists(atoms(), min_size=1, max_size=3).map(lambda xs: "#(+ % " + " ".join(xs) + ")"),
                     ch.map(lambda f: "`" + f), seq_of(1, 2).map(lambda b: "`(a ~b ~@c " + b.replace("; note", " ").replace("\n", " ") + ")")]
        return st.one_of(opts)
    return st.recursive(atoms(), extend, max_leaves=12)


def program_strategy(spans_safe=True):
    return st.lists(st.tuples(forms_strategy(spans_safe), ws()), min_size=1, max_size=4).map(
        lambda xs: "".join(a + b for a, b in xs))


def endings(text):
    yield "lf", text
    yield "crlf", text.replace("\n", "\r\n")
    yield "cr", text.replace("\n", "\r")


def token_boundaries(text):
    """prefix lengths that do not cut a token in two (conservative: after whitespace or a delimiter)"""
    out = []
    instr = False
    i = 0
    while i < len(text):
        c = text[i]
        if instr:
            if c == "\\":
                i += 2
                continue
            if c == '"':
                instr = False
                out.append(i + 1)
            i += 1
            continue
        if c == '"':
            instr = True
        elif c in " \n\r\t," or c in "()[]{}":
            out.append(i + 1)
        i += 1
    return [k for k in out if k < len(text)]


def check_program(rec, prog, spans):
    for style, text in endings(prog):
        origin = f"grammar/{style}"
        k = check_text(rec, text, origin, expect_valid=True, spans=spans)
        if k != "forms":
            continue
        bounds = set(token_boundaries(text))
        for cut in range(0, len(text)):
            pre = text[:cut]
            check_text(rec, pre, origin + "/prefix", count=(cut in bounds))
        if style == "lf":
            for pos in range(len(text)):
                for repl in ("", ")", '"', "#", "\\", "~"):
                    check_text(rec, text[:pos] + repl + text[pos + 1:], "grammar/edit", count=False)
            rec.count("single_char_edits", len(text) * 6)


# ---- bundled sources ----------------------------------------------------------------------------

def bundled_forms():
    """(file, text of one top-level form) for every bundled .lpy file, split by the independent scanner's
    notion of balanced top-level forms (text between two positions where nothing is open)"""
    root = os.path.join(boot.REPO, "src", "basilisp")
    files = []
    for d, _, fn in os.walk(root):
        for f in sorted(fn):
            if f.endswith(".lpy"):
                files.append(os.path.join(d, f))
    for path in sorted(files):
        text = open(path, encoding="utf-8").read()
        depth, start, i, n = 0, 0, 0, len(text)
        instr = False
        while i < n:
            c = text[i]
            if instr:
                if c == "\\":
                    i += 2
                    continue
                if c == '"':
                    instr = False
            elif c == '"':
                instr = True
            elif c == "\\":
                i += 2
                continue
            elif c == ";":
                while i < n and text[i] != "\n":
                    i += 1
                continue
            elif c in "([{":
                depth += 1
            elif c in ")]}":
                depth -= 1
                if depth == 0:
                    yield os.path.relpath(path, root), text[start:i + 1]
                    start = i + 1
            i += 1


def shard(i, n, tier, seed, findings):
    c01.quiet_logging()
    rec = Recorder(ID)
    S()

    def guard(text, origin, **kw):
        try:
            check_text(rec, text, origin, **kw)
        except Violation as v:
            rec.violation(v.sig, v.case, v.detail, finding=v.finding, findings=findings)

    maxlen = 4 if tier == "quick" else 5
    idx = 0
    for L in range(0, maxlen + 1):
        for tup in itertools.product(ALPHABET, repeat=L):
            idx += 1
            if idx % n != i:
                continue
            guard("".join(tup), "exhaustive")
    rec.exhaustive[f"strings<=len{maxlen}"] = True

    # bundled sources: each top-level form whole, plus prefixes
    for j, (fname, ftext) in enumerate(bundled_forms()):
        if j % n != i or len(ftext) > 6000:
            continue
        ftext = ftext.lstrip()
        guard(ftext, "bundled", count=True)
        step = max(1, len(ftext) // (12 if tier == "quick" else 60))
        for cut in range(1, len(ftext), step):
            guard(ftext[:cut], "bundled/prefix", count=True)

    def body(val):
        prog, spans = val
        check_program(rec, prog, spans)

    ex = 40 if tier == "quick" else 1200
    hyp.drive(body, st.one_of(program_strategy(True).map(lambda p: (p, True)), program_strategy(False).map(lambda p: (p, False))),
              rec=rec, findings=findings, seed=seed * 1000 + i, max_examples=ex,
              to_case=lambda v: {"kind": "program", "text": v[0], "spans": v[1]})
    return rec


def replay(case):
    c01.quiet_logging()
    rec = Recorder(ID)
    S()
    if case["kind"] == "program":
        check_program(rec, case["text"], case.get("spans", False))
    else:
        check_text(rec, case["text"], case.get("origin", "replay"), count=False,
                   expect_valid=case.get("origin", "") in ("grammar/lf", "grammar/crlf", "grammar/cr"),
                   spans=False)
        if case.get("origin", "") in ("grammar/lf", "grammar/crlf", "grammar/cr"):
            check_text(rec, case["text"], case["origin"], expect_valid=True, spans=True, count=False)
