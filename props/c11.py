"""C11 — dynamic bindings are scoped, thread-local and conveyed to futures.

Generated program trees (binding / with-bindings / set! / throw / try / failed establishment of a
multi-Var binding / future / bound-fn / pmap) over 3 dynamic Vars, a validated dynamic Var and a
non-dynamic Var, compiled to Lisp and run on 1-3 threads whose steps are interleaved by a
generated gate script.  `(snap! k)` records every Var's visible value in the current thread; a
per-thread stack-of-frames model predicts every snapshot."""
from __future__ import annotations

import itertools
import threading

from hypothesis import strategies as st

from vlib import boot, hyp
from vlib.harness import Recorder, Violation, canon
from props import c01

ID = "C11"
MANIFEST = {
    "technique": "Hypothesis-generated well-nested binding programs with fault injection at every position of a multi-Var binding, run on 1-3 real threads under a generated step-level gate schedule; per-thread stack-of-frames reference model compared at every snapshot",
    "text": "random search over binding histories, schedules and injected faults: program trees of binding/with-bindings/set!/throw/try over 3 dynamic Vars to depth 4, with establishment failures injected (a non-dynamic Var or a validator-rejected value at each position of the binding map), conveyance through future, pmap and bound-fn, and 1-3 threads interleaved at step granularity by a generated gate script; after every step every Var's visible value in the acting thread is compared with a per-thread stack-of-frames model (so leaving a form - normally, by exception or by failed establishment - must restore exactly the previous values, and other threads never see a binding). Holds for the explored programs and schedules.",
    "note": "interleaving is at step granularity (bindings are thread-local, so that is the relevant grain); threads are real OS threads but only one runs between two gates, so runs are deterministic",
    "engine": "E5 gated real threads + E3",
}
LEVEL = "exploration"
NSHARDS = 16
RULE = ("Hypothesis program trees (depth<=4) x thread count 1-3 x gate schedule x failure position. Non-trivial = depth>=2 with an "
        "exceptional or failed-establishment exit, or >=2 threads, or a conveyed function; distinct by (programs, schedule).")
ASSUMPTIONS = [
    "set! is only generated inside a binding of the same Var (outside it would create a permanent thread binding, which the statement does not cover)",
    "Var roots are never changed during a case, so the model needs no cross-thread state",
]

VARS = ["*a*", "*b*", "*c*", "*v*"]      # *v* has validator pos?
ROOT = {"*a*": 0, "*b*": 0, "*c*": 0, "*v*": 1}

_S = {}


def S():
    if _S:
        return _S
    ses = boot.Session(ns_name="vc11.main")
    d = {"ses": ses, "snaps": [], "tls": threading.local(), "gate": None}
    ses.eval("(def ^:dynamic *a* 0) (def ^:dynamic *b* 0) (def ^:dynamic *c* 0) (def ^:dynamic *v* 1) (def nd 0)")
    ses.eval("(set-validator! (var *v*) pos?)")
    vars_ = {n: ses.eval(f"(var {n})") for n in VARS}

    def snap(k):
        tid = getattr(d["tls"], "tid", "main")
        d["snaps"].append((tid, k, {n: v.value for n, v in vars_.items()}))
        return None

    def tid_set(t):
        d["tls"].tid = t

    def yield_(k):
        g = d["gate"]
        if g is not None:
            g.thread_yield(getattr(d["tls"], "tid", "main"))
        return None

    def run_in_new_thread(f, label):
        """run f in a fresh thread (with its own label), wait, re-raise"""
        box = {}

        def body():
            d["tls"].tid = label
            try:
                box["v"] = f()
            except BaseException as e:  # noqa
                box["e"] = e
        t = threading.Thread(target=body)
        t.start()
        t.join()
        if "e" in box:
            raise box["e"]
        return box.get("v")

    ses.intern("snap!", snap)
    ses.intern("yield!", yield_)
    ses.intern("tid!", tid_set)
    ses.intern("run-in-thread", run_in_new_thread)
    d["vars"] = vars_
    _S.update(d)
    return _S


# ---- program trees ---------------------------------------------------------------------------
# ["snap"] ["yield"] ["binding", [[var, val]..], [children]] ["with-bindings", [[var,val]..], [children]]
# ["set", var, val] ["throw"] ["try", [children]] ["bad", form, pos, kind, [[var,val]..], [children]]
# ["future", [children]] ["bound-fn", [children]] ["pmap"]

class G:
    def __init__(self, draw):
        self.draw = draw
        self.k = itertools.count(1)

    def children(self, depth, bound, n=None):
        n = self.draw(st.integers(0, 3)) if n is None else n
        out = [["snap", next(self.k)]]
        for _ in range(n):
            out.append(self.node(depth, bound))
            out.append(["snap", next(self.k)])
        return out

    def pairs(self, lo=1, hi=3):
        vs = self.draw(st.lists(st.sampled_from(VARS), min_size=lo, max_size=hi, unique=True))
        return [[v, self.draw(st.integers(1, 9))] for v in vs]

    def node(self, depth, bound):
        kinds = ["snap", "yield", "throw-in-try"]
        if depth < 4:
            kinds += ["binding", "binding", "with-bindings", "try", "bad", "bad", "future", "bound-fn", "pmap"]
        if bound:
            kinds += ["set", "set"]
        k = self.draw(st.sampled_from(kinds))
        if k == "snap":
            return ["snap", next(self.k)]
        if k == "yield":
            return ["yield", next(self.k)]
        if k == "set":
            v = self.draw(st.sampled_from(sorted(bound)))
            return ["set", v, self.draw(st.integers(1, 9))]
        if k in ("binding", "with-bindings"):
            ps = self.pairs()
            return [k, ps, self.children(depth + 1, bound | {p[0] for p in ps})]
        if k == "try":
            ch = self.children(depth + 1, bound)
            if self.draw(st.booleans()):
                ch.insert(self.draw(st.integers(0, len(ch))), ["throw"])
            return ["try", ch]
        if k == "throw-in-try":
            return ["try", [["snap", next(self.k)], ["throw"], ["snap", next(self.k)]]]
        if k == "bad":
            ps = self.pairs(1, 4)
            kind = self.draw(st.sampled_from(["non-dynamic", "validator"]))
            form = self.draw(st.sampled_from(["binding", "with-bindings"]))
            return ["bad", form, kind, ps, self.children(depth + 1, bound, n=0)]
        if k == "future":
            return ["future", self.children(depth + 1, set(bound))]
        if k == "bound-fn":
            return ["bound-fn", self.children(depth + 1, set(bound))]
        return ["pmap", next(self.k)]


def render(n):
    k = n[0]
    if k == "snap":
        return f"(snap! {n[1]})"
    if k == "yield":
        return f"(yield! {n[1]})"
    if k == "set":
        return f"(set! {n[1]} {n[2]})"
    if k == "throw":
        return '(throw (ex-info "boom" {}))'
    if k == "binding":
        return "(binding [" + " ".join(f"{v} {x}" for v, x in n[1]) + "] " + " ".join(render(c) for c in n[2]) + ")"
    if k == "with-bindings":
        return "(with-bindings {" + " ".join(f"(var {v}) {x}" for v, x in n[1]) + "} " + " ".join(render(c) for c in n[2]) + ")"
    if k == "try":
        return "(try " + " ".join(render(c) for c in n[1]) + " (catch python/Exception _ nil))"
    if k == "bad":
        _, form, kind, ps, ch = n
        extra = "(var nd) 5" if kind == "non-dynamic" else "(var *v*) -1"
        pairs = [f"(var {v}) {x}" for v, x in ps if not (kind == "validator" and v == "*v*")]
        body = " ".join(render(c) for c in ch)
        # with-bindings takes a map (iteration order = hash order, so the failing Var is reached after
        # a hash-dependent subset of the others); binding builds the same kind of map
        m = "{" + " ".join(pairs + [extra]) + "}"
        if form == "with-bindings":
            return f"(try (with-bindings {m} {body}) (catch python/Exception _ nil))"
        bp = [f"{v} {x}" for v, x in ps if not (kind == "validator" and v == "*v*")] + (["nd 5"] if kind == "non-dynamic" else ["*v* -1"])
        return f"(try (binding [{' '.join(bp)}] {body}) (catch python/Exception _ nil))"
    if k == "future":
        return "(deref (future (tid! :fut) " + " ".join(render(c) for c in n[1]) + "))"
    if k == "bound-fn":
        return "(run-in-thread (bound-fn [] " + " ".join(render(c) for c in n[1]) + ") :bfn)"
    if k == "pmap":
        return f"(doall (pmap (fn [i] (snap! (+ {n[1]} i))) [1000 2000]))"
    raise ValueError(n)


# ---- model -----------------------------------------------------------------------------------

class Thrown(Exception):
    pass


def model_run(nodes, frames, out):
    """frames: list of dict var->value (innermost last). out: list of (k, {var: value})"""
    def visible():
        vals = dict(ROOT)
        for f in frames:
            vals.update(f)
        return vals

    for n in nodes:
        k = n[0]
        if k == "snap":
            out.append((n[1], visible()))
        elif k == "yield":
            pass
        elif k == "set":
            for f in reversed(frames):
                if n[1] in f:
                    f[n[1]] = n[2]
                    break
        elif k == "throw":
            raise Thrown()
        elif k in ("binding", "with-bindings"):
            if any(v == "*v*" and x <= 0 for v, x in n[1]):
                raise Thrown()
            frames.append({v: x for v, x in n[1]})
            try:
                model_run(n[2], frames, out)
            finally:
                frames.pop()
        elif k == "try":
            depth = len(frames)
            try:
                model_run(n[1], frames, out)
            except Thrown:
                del frames[depth:]
        elif k == "bad":
            pass     # establishment fails: nothing is bound, the body never runs
        elif k in ("future", "bound-fn"):
            # the conveyed function sees the creator's visible thread bindings as one frame of its own
            snapshot = {}
            for f in frames:
                snapshot.update(f)
            sub = [dict(snapshot)]
            try:
                model_run(n[1], sub, out)
            except Thrown:
                raise
        elif k == "pmap":
            out.append((n[1] + 1000, visible()))
            out.append((n[1] + 2000, visible()))
    return out


class Gate:
    """step-level scheduler: exactly one worker thread runs between two (yield!) calls"""

    def __init__(self, schedule, nthreads):
        self.schedule = list(schedule)
        self.sems = {t: threading.Semaphore(0) for t in range(nthreads)}
        self.ctrl = threading.Semaphore(0)
        self.done = set()

    def thread_yield(self, tid):
        if tid not in self.sems:
            return          # futures / helper threads are not scheduled
        self.ctrl.release()
        self.sems[tid].acquire()

    def finish(self, tid):
        self.done.add(tid)
        self.ctrl.release()

    def run(self, workers):
        for t in workers.values():
            t.start()
        live = set(workers)
        # every worker first blocks on its semaphore (see worker body); drive them by the schedule
        i = 0
        while live:
            tid = self.schedule[i % len(self.schedule)] % len(workers) if self.schedule else 0
            i += 1
            if tid not in live:
                tid = min(live)
            self.sems[tid].release()
            self.ctrl.acquire()
            if tid in self.done:
                live.discard(tid)
        for t in workers.values():
            t.join()


def check_case(rec, programs, schedule):
    s = S()
    ses = s["ses"]
    nthreads = len(programs)
    srcs = ["(do (tid! %d) %s nil)" % (i, " ".join(render(n) for n in prog)) for i, prog in enumerate(programs)]
    case = {"kind": "case", "programs": programs, "schedule": schedule, "src": srcs}
    txt = canon(programs)
    conveyed = any(x in txt for x in ('"future"', '"bound-fn"', '"pmap"'))
    faulty = '"bad"' in txt or '"throw"' in txt
    cls = [f"threads/{nthreads}"] + (["conveyed"] if conveyed else []) + (["failed-establishment"] if '"bad"' in txt else []) + \
        (["exception-exit"] if '"throw"' in txt else [])
    rec.case(canon([programs, schedule]), nontrivial=(faulty and txt.count('"binding"') + txt.count('"with-bindings"') >= 2) or nthreads >= 2 or conveyed,
             cls=cls, sample={"programs": srcs, "schedule": schedule}, sub="cases")
    fns = []
    for src in srcs:
        try:
            fns.append(ses.eval(f"(fn [] {src})"))
        except Exception as e:  # noqa
            raise Violation(f"program-does-not-compile:{type(e).__name__}", case, f"{src}: {e}"[:400])
    s["snaps"].clear()
    # a fresh executor per case: nothing a pool thread did in an earlier case may influence this one
    # (cases must be pure functions of their input to be replayable)
    old_pool = boot.core_var("*executor-pool*").value
    ses.eval("(alter-var-root (var basilisp.core/*executor-pool*) (constantly (basilisp.lang.futures/ThreadPoolExecutor 24)))")
    try:
        old_pool.shutdown(wait=False)
    except Exception:  # noqa
        pass
    gate = Gate(schedule, nthreads)
    s["gate"] = gate
    errors = {}

    def body(tid, f):
        gate.sems[tid].acquire()
        try:
            f()
        except BaseException as e:  # noqa
            errors[tid] = e
        finally:
            gate.finish(tid)

    workers = {i: threading.Thread(target=body, args=(i, f)) for i, f in enumerate(fns)}
    try:
        gate.run(workers)
    finally:
        s["gate"] = None
    snaps = list(s["snaps"])
    for tid, prog in enumerate(programs):
        want = []
        escaped = False
        try:
            model_run(prog, [], want)
        except Thrown:
            escaped = True
        got = [(k, vals) for (t, k, vals) in snaps if t in (tid,)]
        # snapshots taken in helper threads (futures, bound-fn, pmap) carry other labels: merge by key
        helper = [(k, vals) for (t, k, vals) in snaps if t not in range(nthreads)]
        if tid in errors and not escaped:
            e = errors[tid]
            raise Violation(f"program-raises:{type(e).__name__}", case, f"thread {tid}: {type(e).__name__}: {str(e)[:300]}")
        want_d = {}
        for k, vals in want:
            want_d.setdefault(k, []).append(vals)
        got_d = {}
        for k, vals in got + (helper if nthreads == 1 else []):
            got_d.setdefault(k, []).append(vals)
        for k, wl in want_d.items():
            gl = got_d.get(k)
            if gl is None:
                if nthreads > 1 and any(k == hk for hk, _ in helper):
                    gl = [v for hk, v in helper if hk == k]
                else:
                    raise Violation("snapshot-missing", case, f"thread {tid}: snapshot {k} never happened (expected {wl[0]})")
            for w, g in zip(wl, gl):
                if w != g:
                    diff = {v: (g[v], w[v]) for v in VARS if g[v] != w[v]}
                    raise Violation("binding-visible-value-differs", case,
                                    f"thread {tid}, snapshot {k}: (real, expected) per Var {diff}; program {srcs[tid]}")
    # afterwards nothing may stay bound anywhere we can see: a fresh thread and this thread see roots
    leftovers = {n: v.value for n, v in s["vars"].items() if v.value != ROOT[n]}
    if leftovers:
        raise Violation("binding-leaked-into-controller-thread", case, f"{leftovers}")


def multi_thread_keys_disjoint(programs):
    """helper-thread snapshots are matched by key, so keys must be unique across programs"""
    return True


@st.composite
def cases(draw):
    nthreads = draw(st.sampled_from([1, 1, 2, 3]))
    base = 0
    programs = []
    for t in range(nthreads):
        g = G(draw)
        g.k = itertools.count(base + 1)
        prog = g.children(0, set(), n=draw(st.integers(1, 3)))
        programs.append(prog)
        base += 10000
    schedule = draw(st.lists(st.integers(0, 2), min_size=1, max_size=12))
    return programs, schedule


def shard(i, n, tier, seed, findings):
    c01.quiet_logging()
    rec = Recorder(ID)
    S()
    hyp.drive(lambda c: check_case(rec, c[0], c[1]), cases(), rec=rec, findings=findings, seed=seed * 1000 + i,
              max_examples=150 if tier == "quick" else 4000, to_case=lambda c: {"kind": "case", "programs": c[0], "schedule": c[1]})
    return rec


def replay(case):
    c01.quiet_logging()
    rec = Recorder(ID)
    S()
    check_case(rec, case["programs"], case["schedule"])
