"""C14 — cached namespace bytecode is transparent and never used when invalid.

(a) decoding layer, exhaustive: real .lpyc files of bundled and generated namespaces (written by a
    child interpreter through basilisp's importer); every truncation length (all of them for files up
    to a size bound, the first/last 4 KiB plus sampled offsets for bigger ones) and every single-field
    perturbation of the 12-byte header goes through importer._get_basilisp_bytecode, which must raise
    one of the exceptions the loader falls back on and never return.
(b) full import path, sampled: fresh interpreters with their own PYTHONPYCACHEPREFIX: a writer
    (hash seed A) compiles; a reader (seed B != A) loads from the cache; a source process (seed B,
    caching disabled) compiles; readers face truncated / stale / empty / foreign-magic cache files.
    The snapshot (public Vars, metadata, printed values, results of a generated -probes function)
    of the cache-loaded namespace must equal the source-compiled one; after an invalid cache the
    import succeeds, equals source, leaves a valid cache and a second reader uses it."""
from __future__ import annotations

import json
import marshal
import os
import shutil
import subprocess
import sys
import time

from hypothesis import strategies as st

from vlib import boot, hyp
from vlib.harness import Recorder, Violation, canon

ID = "C14"
NEEDS_INIT = False
MANIFEST = {
    "technique": "fault enumeration at the cache-decoding layer (every truncation length / header perturbation of real cache files) + differential between cache-loaded and source-compiled namespaces in fresh interpreters with different PYTHONHASHSEED values, for bundled and Hypothesis-generated namespaces with probe functions",
    "text": "crash-point enumeration and differential testing: every truncation length of real .lpyc files (complete for files up to 48 KiB, first/last 4 KiB + sampled offsets above) and every single-field header perturbation must make the decoder raise EOFError/ImportError/OSError, never return; through the full import path, namespaces (bundled ones and generated ones whose -probes function exercises keyword identity across interning, case, quoted collections with metadata, records, multimethods, inline functions, macros) are written under one hash seed, loaded from the cache under another and compared with a from-source compile under the same seed; truncated, stale, empty and foreign-magic caches must be ignored, recompiled from and replaced by a valid cache.",
    "note": "child interpreters are spawned with an explicit PYTHONHASHSEED and a private PYTHONPYCACHEPREFIX under .work (removed afterwards); ordering of unordered collections is normalised before comparing printed values",
    "category": "fault_enumeration",
    "engine": "E5 fresh interpreters",
}
LEVEL = "fault_enumeration"
# every case spawns fresh interpreters: more than ~6 concurrent shards only fight for the machine
NSHARDS = {"quick": 6, "thorough": 12}
RULE = ("(a) every (cache file, truncation length) and (cache file, header perturbation); (b) (namespace set, writer seed, reader seed, "
        "cache condition) scenarios. Non-trivial = the truncation falls inside the marshalled payload, or the reader's hash seed differs "
        "from the writer's; distinct by (file, offset) / scenario.")
ASSUMPTIONS = [
    "the loader falls back to source exactly on EOFError, ImportError and OSError (importer.exec_module)",
    "a child that exceeds its budget makes the scenario inconclusive, never a violation",
]
SHARD_BUDGET_S = {"quick": 1700, "thorough": 6 * 3600}

LIBS = ["basilisp.string", "basilisp.set", "basilisp.walk", "basilisp.edn", "basilisp.json", "basilisp.data", "basilisp.template",
        "basilisp.url", "basilisp.csv", "basilisp.io", "basilisp.shell", "basilisp.stacktrace", "basilisp.process",
        "basilisp.contrib.bencode", "basilisp.reflect", "basilisp.pprint"]


def workdir(tag):
    d = os.path.join(boot.WORK, "c14", f"{os.getpid()}-{tag}")
    os.makedirs(d, exist_ok=True)
    return d


def child(names, seed, pyc, extra_path=None, cache=True, timeout=600):
    """run vlib/c14child.py in a fresh interpreter -> snapshot dict or None (inconclusive)"""
    env = {k: v for k, v in os.environ.items() if k not in ("PYTHONDONTWRITEBYTECODE", "BASILISP_DO_NOT_CACHE_NAMESPACES")}
    env["PYTHONHASHSEED"] = str(seed)
    env["PYTHONPYCACHEPREFIX"] = pyc
    env["BASILISP_EMIT_GENERATED_PYTHON"] = "false"
    paths = [os.path.join(boot.REPO, "src")] + ([extra_path] if extra_path else [])
    env["PYTHONPATH"] = os.pathsep.join(paths)
    if not cache:
        env["BASILISP_DO_NOT_CACHE_NAMESPACES"] = "true"
        env["PYTHONDONTWRITEBYTECODE"] = "1"
    try:
        r = subprocess.run([sys.executable, os.path.join(boot.VERIF, "vlib", "c14child.py")] + list(names), env=env,
                           stdout=subprocess.PIPE, stderr=subprocess.PIPE, timeout=timeout)
    except subprocess.TimeoutExpired:
        return None
    out = r.stdout.decode(errors="replace")
    if "@@SNAPSHOT@@" not in out:
        return {"crash": (r.stderr.decode(errors="replace")[-1500:] or out[-500:]), "rc": r.returncode}
    return json.loads(out.split("@@SNAPSHOT@@", 1)[1])


def lpyc_files(pyc):
    out = []
    for d, _, fn in os.walk(pyc):
        for f in fn:
            if f.endswith(".lpyc"):
                out.append(os.path.join(d, f))
    return sorted(out)


def source_for(cache_path, pyc):
    """PYTHONPYCACHEPREFIX mirrors the absolute source path: <pyc>/<abs dir>/<name>.cpython-XY.lpyc"""
    rel = os.path.relpath(cache_path, pyc)
    d, f = os.path.split(rel)
    base = f.split(".cpython-")[0]
    return os.path.join("/", d, base + ".lpy")


# ---- (a) decoding layer -------------------------------------------------------------------------

FALLBACK = (EOFError, ImportError, OSError)


def decode(importer, name, mtime, size, data):
    try:
        code = importer._get_basilisp_bytecode(name, mtime, size, data)
        return ("returned", len(code) if hasattr(code, "__len__") else 1)
    except FALLBACK as e:
        return ("fallback", type(e).__name__)
    except BaseException as e:  # noqa
        return ("other", type(e).__name__)


def check_decoding(rec, importer, path, src, tier, findings, shard_i, shard_n):
    data = open(path, "rb").read()
    st_ = os.stat(src)
    mtime, size = int(st_.st_mtime), st_.st_size
    name = os.path.basename(src)
    n = len(data)
    full = decode(importer, name, mtime, size, data)
    case0 = {"kind": "decode", "file": os.path.basename(path), "len": n}
    if full[0] != "returned":
        rec.violation("valid-cache-rejected", dict(case0, cut=n), f"the untouched cache file of {src} does not decode: {full}", findings=findings)
        return
    limit = (8 if tier == "quick" else 48) * 1024
    if n <= limit:
        cuts = range(0, n)
        rec.exhaustive[f"truncations:{os.path.basename(path)}"] = True
    else:
        # cost is quadratic in the file size: every offset near both ends, sampled offsets in between
        edge = 1024 if tier == "quick" else 4096
        step = max(1, n // (400 if tier == "quick" else 20000))
        cuts = sorted(set(list(range(0, edge)) + list(range(max(0, n - edge), n)) + list(range(0, n, step))))
    for k in cuts:
        if k % shard_n != shard_i:
            continue
        r = decode(importer, name, mtime, size, data[:k])
        rec.case(f"{name}:{k}", nontrivial=k > 12, cls="truncation/payload" if k > 12 else "truncation/header", sub="decode-truncation",
                 sample={"file": os.path.basename(path), "cut": k, "of": n, "outcome": r} if k in (5, 13, n // 2) else None)
        if r[0] != "fallback":
            rec.violation(f"truncated-cache-{r[0]}:{r[1]}", dict(case0, cut=k),
                          f"{os.path.basename(path)} truncated to {k} of {n} bytes: decoder {r[0]} {r[1]} (the loader only falls back on EOFError/ImportError/OSError)",
                          findings=findings)
    # header perturbations (complete)
    if shard_i == hash(name) % shard_n or True:
        for pos in range(12):
            for delta in (1, 255, 128):
                b = bytearray(data)
                b[pos] = (b[pos] + delta) % 256
                r = decode(importer, name, mtime, size, bytes(b))
                rec.case(f"{name}:hdr{pos}+{delta}", nontrivial=True, cls="header-perturbation", sub="decode-header")
                if r[0] != "fallback":
                    rec.violation(f"perturbed-header-{r[0]}:{r[1]}", dict(case0, header_byte=pos, delta=delta),
                                  f"byte {pos} of the header changed by {delta}: decoder {r[0]} {r[1]}", findings=findings)
        import importlib.util
        for label, mutated in (("cpython-magic", importlib.util.MAGIC_NUMBER + data[4:]), ("mtime+1", data[:4] + ((mtime + 1) & 0xFFFFFFFF).to_bytes(4, "little") + data[8:]),
                               ("size-1", data[:8] + ((size - 1) & 0xFFFFFFFF).to_bytes(4, "little") + data[12:]), ("empty", b""),
                               ("zeros", bytes(len(data)))):
            r = decode(importer, name, mtime, size, mutated)
            rec.case(f"{name}:{label}", nontrivial=True, cls="header-perturbation", sub="decode-header")
            if r[0] != "fallback":
                rec.violation(f"stale-or-foreign-cache-{r[0]}:{r[1]}", dict(case0, mutation=label), f"{label}: decoder {r[0]} {r[1]}", findings=findings)


# ---- (b) full import path ---------------------------------------------------------------------

def normalize(snap):
    """printed values of maps/sets depend on the hash seed's iteration order: compare as sorted token bags"""
    import re as _re

    def norm_text(t):
        if not isinstance(t, str):
            return t
        # generated names (gensym counters) differ between a process that compiled basilisp.core and one
        # that loaded it from cache: only the numbering differs
        t = _re.sub(r"_\d+\b", "_N", t)
        return "".join(sorted(t)) if any(c in t for c in "{#") else t

    out = {}
    for ns, body in snap.get("namespaces", {}).items():
        vars_ = {}
        for n, v in body["vars"].items():
            vars_[n] = {"private": v["private"], "dynamic": v["dynamic"], "value": norm_text(v["value"]),
                        "meta": {k: norm_text(x) for k, x in v["meta"].items()}}
        out[ns] = {"vars": vars_, "probes": [norm_text(p) for p in body["probes"]] if body["probes"] is not None else None}
    return out, snap.get("errors", {})


def diff_snap(a, b):
    na, ea = normalize(a)
    nb, eb = normalize(b)
    if ea != eb:
        return f"import errors differ: {ea} vs {eb}"
    for ns in sorted(set(na) | set(nb)):
        if ns not in na or ns not in nb:
            return f"namespace {ns} present in only one snapshot"
        va, vb = na[ns]["vars"], nb[ns]["vars"]
        if set(va) != set(vb):
            return f"{ns}: public names differ: only in first {sorted(set(va) - set(vb))[:5]}, only in second {sorted(set(vb) - set(va))[:5]}"
        for n in sorted(va):
            if va[n] != vb[n]:
                return f"{ns}/{n}: {va[n]} vs {vb[n]}"
        if na[ns]["probes"] != nb[ns]["probes"]:
            pa, pb = na[ns]["probes"] or [], nb[ns]["probes"] or []
            idx = next((i for i, (x, y) in enumerate(zip(pa, pb)) if x != y), None)
            return f"{ns}: probe #{idx} differs: {pa[idx] if idx is not None else pa} vs {pb[idx] if idx is not None else pb}"
    return None


def cache_valid(importer, cache_path, src):
    try:
        data = open(cache_path, "rb").read()
        st_ = os.stat(src)
        importer._get_basilisp_bytecode(os.path.basename(src), int(st_.st_mtime), st_.st_size, data)
        return True
    except BaseException:  # noqa
        return False


def gen_namespace_source(nsname, spec):
    """spec: {"kws": [[ns,name]..], "consts": [source texts], "multi": [kw names]}"""
    kws = spec["kws"]
    k0 = kws[0]
    kwlit = lambda k: ":" + (k[0] + "/" if k[0] else "") + k[1]
    kwctor = lambda k: f'(keyword {json.dumps(k[0])} {json.dumps(k[1])})' if k[0] else f'(keyword {json.dumps(k[1])})'
    lines = [f"(ns {nsname} (:require [basilisp.string :as str]))", f"(def kw-a {kwlit(k0)})"]
    for i, c in enumerate(spec["consts"]):
        lines.append(f"(def const-{i} (quote {c}))")
    lines += ['(def a-regex #"a+b")', '(def an-id #uuid "81f35603-0408-4b3d-bbc0-462e3702747f")', '(def an-inst #inst "2018-11-28T12:43:25.477-00:00")',
              "(def ^:dynamic *dyn* 3)", "(def ^:private hidden 4)", "(defrecord R [a b])",
              "(defmulti mm :type)"]
    for k in spec["multi"]:
        lines.append(f"(defmethod mm {kwlit(k)} [_] {kwlit(k)})")
    lines.append("(defmethod mm :default [_] :dflt)")
    lines.append('(defn ^:inline inl "an inline fn" [x] (+ x 1))')
    lines.append("(defmacro mac [x] `(vector ~x :mac/kw 'quoted-sym))")
    probes = []
    for k in kws:
        probes += [f"(identical? {kwlit(k)} {kwctor(k)})", f"(get {{{kwlit(k)} 1}} {kwctor(k)})", f"(contains? #{{{kwlit(k)} :other--member}} {kwctor(k)})",
                   f"(case {kwctor(k)} {kwlit(k)} :hit :miss)", f"(= {kwlit(k)} {kwctor(k)})", f"(hash-map {kwlit(k)} 1 {kwctor(k)} 2)"]
    probes += [f"(identical? kw-a {kwctor(k0)})"]
    for k in spec["multi"]:
        probes += [f"(mm {{:type {kwctor(k)}}})"]
    probes += ["(mm {:type :other})", "(inl 1)", "(mac 2)", "(:a (->R 1 2))", "(= (->R 1 2) (map->R {:a 1 :b 2}))", '(re-matches a-regex "aab")',
               '(str/upper-case "x")', "(:doc (meta (var inl)))"]
    for i in range(len(spec["consts"])):
        probes += [f"(= const-{i} (read-string (pr-str const-{i})))", f"(hash const-{i})" if False else f"(count (pr-str const-{i}))", f"(meta const-{i})"]
    lines.append("(defn -probes [] [" + "\n  ".join(probes) + "])")
    return "\n".join(lines) + "\n"


def spec_strategy():
    kwname = st.sampled_from(["zz", "top", "a", "type", "k1", "doc", "x", "very-long-keyword-name", "é"])
    kws = st.lists(st.tuples(st.one_of(st.none(), st.sampled_from(["zz", "my.ns"])), kwname).map(list), min_size=1, max_size=4, unique_by=canon)
    consts = st.lists(st.sampled_from(["{:k [1 2.5 3/4 1.5M \"s\" sym ns/sym #{:a} (1 2)]}", "^{:tag x} [1 :a]", "(a :b \"c\" 1.5e10 ##Inf)", "#{1 2 3}",
                                       "{:a {:b {:c [nil true false]}}}", "[#uuid \"81f35603-0408-4b3d-bbc0-462e3702747f\" #\"re+\"]", "^:flag {:x 1}"]), max_size=3)
    multi = st.lists(st.tuples(st.one_of(st.none(), st.just("zz")), kwname).map(list), max_size=2, unique_by=canon)
    return st.fixed_dictionaries({"kws": kws, "consts": consts, "multi": multi})


def check_scenario(rec, importer, names, seeds, wd, extra_path, conditions, case, findings):
    """names: namespaces to import; seeds (A, B); conditions: list of cache corruptions to test"""
    pyc = os.path.join(wd, "pyc")
    seedA, seedB = seeds
    writer = child(names, seedA, pyc, extra_path)
    if writer is None:
        rec.inconclusive += 1
        return
    if "crash" in writer:
        raise Violation("writer-process-failed", case, writer["crash"][-600:])
    # the from-source reference: a second cache directory that only ever sees hash seed B and from
    # which the cache files of the namespaces under test are removed first, so they (and only they)
    # are compiled from source while basilisp.core does not have to be recompiled for every scenario
    pyc_src = os.path.join(wd, f"pyc-src-{seedB}")
    for p in lpyc_files(pyc_src):
        if any(os.path.basename(p).startswith(nm.split(".")[-1].replace("-", "_") + ".") for nm in names):
            os.remove(p)
    source = child(names, seedB, pyc_src, extra_path)
    reader = child(names, seedB, pyc, extra_path)
    if source is None or reader is None:
        rec.inconclusive += 1
        return
    for label, snap in (("source", source), ("reader", reader)):
        if "crash" in snap:
            raise Violation(f"{label}-process-failed", case, snap["crash"][-600:])
    for label, snap in (("writer", writer), ("source", source), ("reader", reader)):
        if snap.get("errors"):
            raise Violation(f"{label}-import-error", dict(case, seeds=list(seeds)), str(snap["errors"])[:600])
    rec.case(canon([case, "hash-seeds", seeds]), nontrivial=seedA != seedB, cls="scenario/cache-vs-source", sample=dict(case, seeds=seeds), sub="import-path")
    d = diff_snap(reader, source)
    if d:
        raise Violation("cache-loaded-differs-from-source", dict(case, seeds=list(seeds)),
                        f"written under PYTHONHASHSEED={seedA}, loaded from cache under {seedB} vs compiled from source under {seedB}: {d}")
    d = diff_snap(writer, source)
    if d and seedA == seedB:
        raise Violation("writer-differs-from-source", dict(case, seeds=list(seeds)), d)
    mine = [p for p in lpyc_files(pyc) if any(os.path.basename(p).startswith(n.split(".")[-1].replace("-", "_") + ".") for n in names)]
    for cond in conditions:
        for path in mine:
            src = source_for(path, pyc)
            if not os.path.exists(src):
                continue
            data = open(path, "rb").read()
            if cond[0] == "truncate":
                bad = data[:int(len(data) * cond[1])]
            elif cond[0] == "empty":
                bad = b""
            elif cond[0] == "stale-mtime":
                bad = data[:4] + ((int.from_bytes(data[4:8], "little") + 7) & 0xFFFFFFFF).to_bytes(4, "little") + data[8:]
            elif cond[0] == "stale-size":
                bad = data[:8] + ((int.from_bytes(data[8:12], "little") + 1) & 0xFFFFFFFF).to_bytes(4, "little") + data[12:]
            elif cond[0] == "foreign-magic":
                bad = b"\x00\x00\r\n" + data[4:]
            else:
                bad = data[:12] + data[12:][::-1]
            with open(path, "wb") as fh:
                fh.write(bad)
        c2 = dict(case, condition=list(cond))
        rec.case(canon([case, cond]), nontrivial=True, cls=f"scenario/{cond[0]}", sample=c2, sub="import-path")
        r1 = child(names, seedB, pyc, extra_path)
        if r1 is None:
            rec.inconclusive += 1
            continue
        if "crash" in r1 or r1.get("errors"):
            raise Violation(f"import-fails-with-{cond[0]}-cache", c2, (r1.get("crash") or str(r1.get("errors")))[-600:])
        d = diff_snap(r1, source)
        if d:
            raise Violation(f"namespace-differs-after-{cond[0]}-cache", c2, d)
        for path in mine:
            src = source_for(path, pyc)
            if os.path.exists(src) and not cache_valid(importer, path, src):
                raise Violation(f"no-valid-cache-left-after-{cond[0]}", c2, f"{os.path.basename(path)} is not a valid cache after the import recovered from source")
        r2 = child(names, seedB, pyc, extra_path)
        if r2 is None:
            rec.inconclusive += 1
            continue
        if "crash" in r2:
            raise Violation("second-reader-failed", c2, r2["crash"][-400:])
        d = diff_snap(r2, source)
        if d:
            raise Violation("second-reader-differs", c2, d)


def shard(i, n, tier, seed, findings):
    boot.prepare_env()
    rec = Recorder(ID)
    sys.path.insert(0, os.path.join(boot.REPO, "src"))
    from basilisp import importer
    wd = workdir(f"s{i}")
    try:
        # generated namespace + (for some shards) a bundled group; every shard has its own cache dir
        gen_dir = os.path.join(wd, "gensrc")
        os.makedirs(os.path.join(gen_dir, "vgen"), exist_ok=True)
        open(os.path.join(gen_dir, "vgen", "__init__.py"), "w").close()
        conditions_pool = [("truncate", 0.5), ("empty",), ("stale-mtime",), ("stale-size",), ("foreign-magic",), ("truncate", 0.02), ("truncate", 0.97), ("truncate", 0.25)]
        counter = {"k": 0}

        def body(spec):
            counter["k"] += 1
            nsname = f"vgen.n{seed}x{i}x{counter['k']}"
            path = os.path.join(gen_dir, "vgen", nsname.split(".")[1] + ".lpy")
            with open(path, "w", encoding="utf-8") as fh:
                fh.write(gen_namespace_source(nsname, spec))
            seeds = (11 + i + 16 * counter["k"], 97 + 3 * i)   # one reader/source seed per shard: its cache dir is primed once
            conds = [conditions_pool[(i + counter["k"]) % len(conditions_pool)], conditions_pool[(i + 3 * counter["k"] + 1) % len(conditions_pool)]]
            check_scenario(rec, importer, [nsname], seeds, wd, gen_dir, conds, {"kind": "generated-ns", "spec": spec}, findings)

        hyp.drive(body, spec_strategy(), rec=rec, findings=findings, seed=seed * 1000 + i, max_examples=1 if tier == "quick" else 25,
                  shrink=False, max_sigs=2, to_case=lambda s: {"kind": "generated-ns", "spec": s})

        lib = LIBS[i % len(LIBS)]
        try:
            check_scenario(rec, importer, [lib], (5 + i, 97 + 3 * i), wd, None, [conditions_pool[i % len(conditions_pool)]], {"kind": "bundled", "ns": lib}, findings)
        except Violation as v:
            rec.violation(v.sig, v.case, v.detail, finding=v.finding, findings=findings)

        # (a) decoding layer on the cache files this shard's children wrote (core + its library + generated)
        pyc = os.path.join(wd, "pyc")
        files = lpyc_files(pyc)
        for path in files:
            src = source_for(path, pyc)
            if not os.path.exists(src):
                continue
            is_core = os.path.basename(path).startswith("core.")
            if is_core:
                # the big file is shared work: every shard takes its residue class of the offsets
                check_decoding(rec, importer, path, src, tier, findings, i, n)
            else:
                check_decoding(rec, importer, path, src, tier, findings, 0, 1)
    finally:
        shutil.rmtree(wd, ignore_errors=True)
    return rec


def replay(case):
    boot.prepare_env()
    rec = Recorder(ID)
    sys.path.insert(0, os.path.join(boot.REPO, "src"))
    from basilisp import importer
    from vlib.harness import Findings
    wd = workdir("replay")
    try:
        if case["kind"] == "generated-ns":
            gen_dir = os.path.join(wd, "gensrc")
            os.makedirs(os.path.join(gen_dir, "vgen"), exist_ok=True)
            open(os.path.join(gen_dir, "vgen", "__init__.py"), "w").close()
            nsname = "vgen.replayns"
            with open(os.path.join(gen_dir, "vgen", "replayns.lpy"), "w", encoding="utf-8") as fh:
                fh.write(gen_namespace_source(nsname, case["spec"]))
            seeds = tuple(case.get("seeds", (11, 97)))
            conds = [tuple(case["condition"])] if "condition" in case else [("truncate", 0.5)]
            check_scenario(rec, importer, [nsname], seeds, wd, gen_dir, conds, {"kind": "generated-ns", "spec": case["spec"]}, Findings())
        elif case["kind"] == "bundled":
            seeds = tuple(case.get("seeds", (5, 1000)))
            conds = [tuple(case["condition"])] if "condition" in case else [("truncate", 0.5)]
            check_scenario(rec, importer, [case["ns"]], seeds, wd, None, conds, {"kind": "bundled", "ns": case["ns"]}, Findings())
        else:
            # decoding-layer case: regenerate a cache for the library the file belongs to and re-check that file
            child(["basilisp.string"], 5, os.path.join(wd, "pyc"))
            for path in lpyc_files(os.path.join(wd, "pyc")):
                if os.path.basename(path) == case["file"]:
                    check_decoding(rec, importer, path, source_for(path, os.path.join(wd, "pyc")), "quick", Findings(), 0, 1)
            if rec.violations:
                v = rec.violations[0]
                raise Violation(v["sig"], v["case"], v["detail"])
    finally:
        shutil.rmtree(wd, ignore_errors=True)
