"""C20 — integer and ratio arithmetic is exact; quot/rem/mod obey their identities; result
category depends only on operand types; every call path gives the same answer."""
from __future__ import annotations

import math
from decimal import Decimal
from fractions import Fraction

from hypothesis import strategies as st

from vlib import boot, hyp
from vlib.harness import Recorder, Violation, canon

ID = "C20"
MANIFEST = {
    "technique": "exhaustive operand-pair enumeration over a 41-element universe x 7 operators x 4 call paths + Hypothesis big ints/ratios; fractions.Fraction reference, quot/rem/mod identities, differential between call paths",
    "text": "bounded-exhaustive and random search against an exact rational reference: all ordered pairs of a universe of small/huge ints, ratios, decimals and floats through + - * / quot rem mod (and inc dec abs, unary - and /, n-ary folds) via compiled-literal, compiled-local, apply and no-inlining paths; random operands up to 2^200. Absence of violations is shown only for the explored operands.",
    "note": "trusts Python's fractions.Fraction as the exact reference; float/decimal results are only checked for category and path agreement, not for a value",
    "engine": "E2 data universes",
}
LEVEL = "exploration"
NSHARDS = 16
RULE = ("all ordered pairs of the universe x {+ - * / quot rem mod} x call paths {literal, locals, apply, "
        "noinline} plus unary/inlined ops and Hypothesis-generated big ints / ratios / n-ary folds. "
        "Non-trivial = operands of different categories, or magnitude > 2^53, or a negative divisor; "
        "distinct by (op, printed operands).")
ASSUMPTIONS = [
    "fractions.Fraction arithmetic is the reference for int/ratio operands",
    "floats and decimals: only result category and agreement between call paths are checked",
    "division by zero is excluded (the statement quantifies over non-zero divisors)",
]

OPS2 = ["+", "-", "*", "/", "quot", "rem", "mod"]
OPS1 = ["inc", "dec", "abs", "-", "/", "+", "*"]


def universe():
    F = Fraction
    D = Decimal
    return [0, 1, -1, 2, -2, 7, -7, 3, 2 ** 53 + 1, -(2 ** 53) - 1, 2 ** 53 - 1, 10 ** 30, -(10 ** 30),
            2 ** 64, 10 ** 30 + 7,
            F(1, 2), F(-1, 2), F(3, 2), F(-3, 2), F(7, 3), F(-7, 3), F(10 ** 30, 7), F(1, 10 ** 30),
            F(-(10 ** 30) - 1, 10 ** 15),
            D("0"), D("1.5"), D("-1.5"), D("2"), D("1E+30"), D("-0.1"),
            0.0, -0.0, 1.0, -1.0, 0.5, -2.5, 1e300, 5e-324, float(2 ** 53), 1e-30, 3.0]


def lit(x):
    if isinstance(x, bool):
        raise ValueError
    if isinstance(x, int):
        return str(x)
    if isinstance(x, Fraction):
        return f"{x.numerator}/{x.denominator}"
    if isinstance(x, Decimal):
        return f"{x}M"
    if isinstance(x, float):
        if math.isnan(x):
            return "##NaN"
        if math.isinf(x):
            return "##Inf" if x > 0 else "##-Inf"
        r = repr(x)
        # the reader documents `2e6` as an integer and computes sig*10**exp inexactly, so a float
        # whose repr uses an exponent is rendered as a constructor call (still a compiled constant arg)
        return f'(python/float "{r}")' if "e" in r else r
    raise ValueError(x)


def cat(x):
    if isinstance(x, bool):
        return "bool"
    if isinstance(x, (int, Fraction)):
        return "exact"
    if isinstance(x, Decimal):
        return "decimal"
    if isinstance(x, float):
        return "float"
    return type(x).__name__


RANK = {"exact": 0, "decimal": 1, "float": 2}

_S = {}


def S():
    if _S:
        return _S
    ses = boot.Session()
    ses_ni = boot.Session(opts={"inline_functions": False})
    d = {"ses": ses, "ses_ni": ses_ni, "apply": boot.core("apply"), "loc": {}, "ni": {}, "var": {}}
    from basilisp.lang import vector as vec
    d["vec"] = vec
    for op in OPS2:
        d["loc"][op] = ses.eval(f"(fn [a b] ({op} a b))")
        d["ni"][op] = ses_ni.eval(f"(fn [a b] ({op} a b))")
        d["var"][op] = boot.core(op)
    d["loc1"], d["ni1"] = {}, {}
    for op in OPS1:
        d["loc1"][op] = ses.eval(f"(fn [a] ({op} a))")
        d["ni1"][op] = ses_ni.eval(f"(fn [a] ({op} a))")
        d["var"][op] = boot.core(op)
    for n in (3, 4):
        for op in ("+", "-", "*", "/"):
            args = " ".join("abcd"[:n])
            d["loc"][(op, n)] = ses.eval(f"(fn [{args}] ({op} {args}))")
    _S.update(d)
    return _S


def run(f, *args):
    try:
        return ("ok", f(*args))
    except Exception as e:  # noqa - the outcome class is what we compare
        return ("raise", type(e).__name__)


def same(a, b):
    if a[0] != b[0]:
        return False
    if a[0] == "raise":
        return a[1] == b[1]
    x, y = a[1], b[1]
    if type(x) is not type(y):
        return False
    if isinstance(x, float) and math.isnan(x):
        return math.isnan(y)
    if isinstance(x, float) and x == 0.0 and y == 0.0:
        return math.copysign(1, x) == math.copysign(1, y)
    if isinstance(x, Decimal):
        return (x.is_nan() and y.is_nan()) or x == y
    return x == y


def exact_ref(op, a, b):
    a, b = Fraction(a), Fraction(b)
    if op == "+":
        return a + b
    if op == "-":
        return a - b
    if op == "*":
        return a * b
    if op == "/":
        return a / b
    q = a / b
    t = Fraction(math.trunc(q))
    if op == "quot":
        return t
    if op == "rem":
        return a - b * t
    if op == "mod":
        return a - b * math.floor(q)
    raise ValueError(op)


def norm_exact(fr):
    return fr.numerator if fr.denominator == 1 else fr


def sgn(x):
    return (x > 0) - (x < 0)


def nontrivial(op, a, b):
    big = any(isinstance(x, (int, Fraction)) and abs(x) > 2 ** 53 for x in (a, b))
    return cat(a) != cat(b) or type(a) is not type(b) or big or (op in ("quot", "rem", "mod", "/") and b < 0)


def check_binary(rec, op, a, b, paths=("literal", "locals", "apply", "noinline")):
    s = S()
    case = {"kind": "bin", "op": op, "a": lit(a), "b": lit(b)}
    rec.case(canon(case), nontrivial=nontrivial(op, a, b), cls=f"{op}/{cat(a)}x{cat(b)}", sample=case,
             sub="binary")
    zero_div = op in ("/", "quot", "rem", "mod") and b == 0
    outs = {}
    if "locals" in paths:
        outs["locals"] = run(s["loc"][op], a, b)
    if "apply" in paths:
        outs["apply"] = run(s["apply"], s["var"][op], s["vec"].vector([a, b]))
    if "noinline" in paths:
        outs["noinline"] = run(s["ni"][op], a, b)
    if "literal" in paths:
        outs["literal"] = run(s["ses"].eval, f"({op} {lit(a)} {lit(b)})")
    names = list(outs)
    for nm in names[1:]:
        if not same(outs[names[0]], outs[nm]):
            raise Violation(f"call-paths-disagree:{op}", case,
                            f"{names[0]} -> {outs[names[0]]!r} but {nm} -> {outs[nm]!r}")
    out = outs[names[0]]
    if zero_div:
        rec.count("zero_divisor_skipped")
        return out
    ca, cb = cat(a), cat(b)
    if ca == "exact" and cb == "exact":
        if out[0] != "ok":
            raise Violation(f"exact-op-raises:{op}", case, f"{out!r}")
        want = norm_exact(exact_ref(op, a, b))
        got = out[1]
        if type(got) is not type(want) or got != want:
            raise Violation(f"exact-result:{op}", case, f"got {got!r} ({type(got).__name__}), rational arithmetic gives {want!r} ({type(want).__name__})")
    if out[0] == "ok":
        want_cat = max((ca, cb), key=lambda c: RANK[c])
        if cat(out[1]) != want_cat:
            raise Violation(f"result-category:{op}", case,
                            f"{ca} {op} {cb} -> {cat(out[1])} ({out[1]!r}), expected {want_cat}")
    return out


def check_identities(rec, a, b):
    """exact operands, b != 0: x = y*quot + rem, |rem| < |y|, sgn rem in {0, sgn x}, sgn mod in {0, sgn y},
    (x - mod)/y integral, quot integral"""
    s = S()
    case = {"kind": "ident", "a": lit(a), "b": lit(b)}
    rec.case(canon(case), nontrivial=nontrivial("quot", a, b), cls="identities", sample=case, sub="identities")
    q = s["var"]["quot"](a, b)
    r = s["var"]["rem"](a, b)
    m = s["var"]["mod"](a, b)
    mul, add, sub_, div = s["var"]["*"], s["var"]["+"], s["var"]["-"], s["var"]["/"]
    for nm, v in (("quot", q), ("rem", r), ("mod", m)):
        if cat(v) != "exact":
            raise Violation(f"ident-category:{nm}", case, f"{nm} -> {v!r}")
    if not isinstance(q, int):
        raise Violation("quot-not-integer", case, f"quot -> {q!r}")
    back = add(mul(b, q), r)
    if back != a or cat(back) != "exact":
        raise Violation("x=y*quot+rem", case, f"quot={q!r} rem={r!r} y*quot+rem={back!r}")
    if not abs(Fraction(r)) < abs(Fraction(b)):
        raise Violation("abs-rem-lt-abs-y", case, f"rem={r!r}")
    if sgn(r) not in (0, sgn(a)):
        raise Violation("rem-sign", case, f"rem={r!r}")
    if sgn(m) not in (0, sgn(b)):
        raise Violation("mod-sign", case, f"mod={m!r}")
    if not abs(Fraction(m)) < abs(Fraction(b)):
        raise Violation("abs-mod-lt-abs-y", case, f"mod={m!r}")
    k = div(sub_(a, m), b)
    if not isinstance(k, int):
        raise Violation("x-mod-not-multiple", case, f"(x - mod)/y = {k!r}")


def check_unary(rec, op, a):
    s = S()
    case = {"kind": "un", "op": op, "a": lit(a)}
    rec.case(canon(case), nontrivial=cat(a) != "exact" or abs(a) > 2 ** 53, cls=f"unary/{op}", sample=case, sub="unary")
    outs = {
        "locals": run(s["loc1"][op], a),
        "apply": run(s["apply"], s["var"][op], s["vec"].vector([a])),
        "noinline": run(s["ni1"][op], a),
        "literal": run(s["ses"].eval, f"({op} {lit(a)})"),
    }
    names = list(outs)
    for nm in names[1:]:
        if not same(outs[names[0]], outs[nm]):
            raise Violation(f"call-paths-disagree:{op}/1", case, f"{names[0]} -> {outs[names[0]]!r} but {nm} -> {outs[nm]!r}")
    out = outs["locals"]
    if cat(a) == "exact" and not (op == "/" and a == 0):
        fa = Fraction(a)
        want = {"inc": fa + 1, "dec": fa - 1, "abs": abs(fa), "-": -fa, "+": fa, "*": fa}.get(op)
        if op == "/":
            want = 1 / fa
        want = norm_exact(want)
        if out[0] != "ok" or type(out[1]) is not type(want) or out[1] != want:
            raise Violation(f"exact-result:{op}/1", case, f"got {out!r}, expected {want!r}")


def check_fold(rec, op, args):
    s = S()
    case = {"kind": "fold", "op": op, "args": [lit(x) for x in args]}
    rec.case(canon(case), nontrivial=True, cls=f"fold/{op}/{len(args)}", sample=case, sub="fold")
    if op == "/" and any(x == 0 for x in args[1:]):
        return
    o1 = run(s["loc"][(op, len(args))], *args)
    o2 = run(s["apply"], s["var"][op], s["vec"].vector(args))
    if not same(o1, o2):
        raise Violation(f"call-paths-disagree:{op}/n", case, f"{o1!r} vs {o2!r}")
    if all(cat(x) == "exact" for x in args):
        acc = Fraction(args[0])
        for x in args[1:]:
            acc = exact_ref(op, acc, x)
        want = norm_exact(acc)
        if o1[0] != "ok" or type(o1[1]) is not type(want) or o1[1] != want:
            raise Violation(f"exact-result:{op}/n", case, f"got {o1!r}, expected {want!r}")


def _guard(rec, findings, f, *a):
    try:
        f(rec, *a)
    except Violation as v:
        rec.violation(v.sig, v.case, v.detail, finding=v.finding, findings=findings)


def shard(i, n, tier, seed, findings):
    rec = Recorder(ID)
    U = universe()
    work = []
    for op in OPS2:
        for a in U:
            for b in U:
                work.append(("bin", op, a, b))
    exact = [x for x in U if cat(x) == "exact"]
    for a in exact:
        for b in exact:
            if b != 0:
                work.append(("ident", a, b))
    for op in OPS1:
        for a in U:
            work.append(("un", op, a))
    rec.exhaustive["binary"] = True
    rec.exhaustive["identities"] = True
    for idx, w in enumerate(work):
        if idx % n != i:
            continue
        if w[0] == "bin":
            _guard(rec, findings, check_binary, w[1], w[2], w[3])
            # category symmetry for + and *
        elif w[0] == "ident":
            _guard(rec, findings, check_identities, w[1], w[2])
        else:
            _guard(rec, findings, check_unary, w[1], w[2])

    big = st.integers(min_value=-(2 ** 200), max_value=2 ** 200)
    small = st.integers(min_value=-20, max_value=20)
    ints = st.one_of(big, small, st.sampled_from([2 ** 53, 2 ** 53 + 1, 2 ** 63, 2 ** 64, -(2 ** 63)]))
    ratios = st.builds(lambda p, q: Fraction(p, q), ints, ints.filter(lambda x: x != 0))
    exacts = st.one_of(ints, ratios.map(norm_exact))
    others = st.one_of(st.floats(allow_nan=False, allow_infinity=False, width=64),
                       st.decimals(allow_nan=False, allow_infinity=False, places=3, min_value=-10 ** 6, max_value=10 ** 6))
    anynum = st.one_of(exacts, exacts, others)
    strat = st.one_of(
        st.tuples(st.just("bin"), st.sampled_from(OPS2), exacts, exacts),
        st.tuples(st.just("bin"), st.sampled_from(OPS2), anynum, anynum),
        st.tuples(st.just("ident"), exacts, exacts.filter(lambda x: x != 0)),
        st.tuples(st.just("fold"), st.sampled_from(["+", "-", "*", "/"]), st.lists(exacts, min_size=3, max_size=4)),
        st.tuples(st.just("fold"), st.sampled_from(["+", "-", "*"]), st.lists(anynum, min_size=3, max_size=4)),
        st.tuples(st.just("un"), st.sampled_from(OPS1), anynum),
    )

    def body(v):
        if v[0] == "bin":
            # the compiled-literal path costs a compile; sample it
            check_binary(rec, v[1], v[2], v[3])
            if v[1] in ("+", "*"):
                o1 = run(S()["loc"][v[1]], v[2], v[3])
                o2 = run(S()["loc"][v[1]], v[3], v[2])
                if o1[0] == "ok" and o2[0] == "ok" and cat(o1[1]) != cat(o2[1]):
                    raise Violation(f"category-asymmetric:{v[1]}", None, f"{o1!r} vs {o2!r}")
        elif v[0] == "ident":
            check_identities(rec, v[1], v[2])
        elif v[0] == "fold":
            check_fold(rec, v[1], v[2])
        else:
            check_unary(rec, v[1], v[2])

    def to_case(v):
        if v[0] == "bin":
            return {"kind": "bin", "op": v[1], "a": lit(v[2]), "b": lit(v[3])}
        if v[0] == "ident":
            return {"kind": "ident", "a": lit(v[1]), "b": lit(v[2])}
        if v[0] == "fold":
            return {"kind": "fold", "op": v[1], "args": [lit(x) for x in v[2]]}
        return {"kind": "un", "op": v[1], "a": lit(v[2])}

    hyp.drive(body, strat, rec=rec, findings=findings, seed=seed * 1000 + i,
              max_examples=250 if tier == "quick" else 6000, to_case=to_case)
    return rec


def _rd(t):
    return S()["ses"].eval(t)


def replay(case):
    rec = Recorder(ID)
    k = case["kind"]
    if k == "bin":
        check_binary(rec, case["op"], _rd(case["a"]), _rd(case["b"]))
        if case["op"] in ("+", "*"):
            a, b = _rd(case["a"]), _rd(case["b"])
            o1, o2 = run(S()["loc"][case["op"]], a, b), run(S()["loc"][case["op"]], b, a)
            if o1[0] == "ok" and o2[0] == "ok" and cat(o1[1]) != cat(o2[1]):
                raise Violation(f"category-asymmetric:{case['op']}", case, f"{o1!r} vs {o2!r}")
    elif k == "ident":
        check_identities(rec, _rd(case["a"]), _rd(case["b"]))
    elif k == "fold":
        check_fold(rec, case["op"], [_rd(x) for x in case["args"]])
    else:
        check_unary(rec, case["op"], _rd(case["a"]))
