"""C13 — delays run once, promises deliver once, futures yield their body's outcome.

Delay and Promise run under the deterministic scheduler (vlib/detsched.py): 2-4 threads race to
force one delay (body fast / slow / throwing) or to deliver to / deref (plain and timed) one promise;
the choice list is the generated input and the time-out of a timed deref is a scheduler choice.
Futures use concurrent.futures, whose blocking points the scheduler cannot own: they run as real
threads whose bodies block on harness gates opened by a generated gate script."""
from __future__ import annotations

import itertools
import threading

from hypothesis import strategies as st

from vlib import boot, hyp, detsched
from vlib.harness import Recorder, Violation, canon
from props import c01

ID = "C13"
MANIFEST = {
    "technique": "deterministic line-granularity scheduler with Hypothesis-generated schedules (+ enumeration of single/double preemption points) for Delay and Promise; gate scripts over real threads for Future; history invariants (at most one thread in the body, no body start after a body return, first deliver wins, deref-after-deliver sees the value, timed deref returns the time-out value only if nothing was delivered before, realized? monotone)",
    "text": "schedule search with explicit history invariants: 2-4 threads force one delay whose body is fast, slow (yield points inside) or throwing; deliverers, derefers and timed derefers share one promise, the time-out being a scheduler decision; for futures, bodies that return or throw block on gates opened by a generated script while derefs happen before and after completion. Every run is checked for: body concurrency <= 1 and no body start after a body returned, identical deref results, first-completed deliver wins, no deref after a completed deliver misses the value, monotone realized?, future deref = body outcome. Deadlock and livelock are counted verdicts of the scheduler. Holds for the explored schedules.",
    "note": "yield points are Python lines; ThreadPoolExecutor internals are scheduled by the OS (futures part is statistical)",
    "engine": "E4 deterministic scheduler + E5 gated threads",
}
LEVEL = "exploration"
NSHARDS = 16
RULE = ("Hypothesis (configuration, choice list) pairs for delay and promise + enumeration of preemption points for fixed configurations "
        "+ gate scripts for futures. Non-trivial = >=2 threads are inside the race window (a preemption happened while a thread was "
        "inside deref/deliver); distinct by (configuration, effective schedule).")
ASSUMPTIONS = ["line-granularity interleavings only", "a delay whose body throws may be retried by a later deref (no run has *returned*)"]

TRACE_FILES = ("delay.py", "promise.py", "atom.py", "reference.py")


def trace_filter(filename, name):
    if filename.endswith(TRACE_FILES):
        return True
    return filename.endswith("c13.py") and name.startswith("body_")


_S = {}


def S():
    if _S:
        return _S
    from basilisp.lang import delay, promise, futures
    d = dict(delay=delay, promise=promise, futures=futures)
    for n in ("deref", "realized?", "deliver", "force", "future-call", "future-done?"):
        d[n] = boot.core(n)
    d["future-macro"] = boot.Session().eval("(fn* [body] (future (body)))")
    _S.update(d)
    return _S


class Boom(Exception):
    pass


# ---- delay -----------------------------------------------------------------------------------

def run_delay(cfg, choices):
    s = S()
    sched = detsched.Sched(choices, trace_filter, max_steps=6000)
    st_ = {"inside": 0, "max_inside": 0, "starts": [], "returns": [], "runs": 0}

    def body_fast():
        st_["runs"] += 1
        st_["starts"].append(sched.steps)
        st_["inside"] += 1
        st_["max_inside"] = max(st_["max_inside"], st_["inside"])
        v = 40 + st_["runs"]
        st_["inside"] -= 1
        st_["returns"].append(sched.steps)
        return v

    def body_slow():
        st_["runs"] += 1
        st_["starts"].append(sched.steps)
        st_["inside"] += 1
        st_["max_inside"] = max(st_["max_inside"], st_["inside"])
        v = 40
        v = v + st_["runs"]
        v = v + 0
        v = v + 0
        st_["inside"] -= 1
        st_["returns"].append(sched.steps)
        return v

    def body_throw_first():
        st_["runs"] += 1
        st_["starts"].append(sched.steps)
        st_["inside"] += 1
        st_["max_inside"] = max(st_["max_inside"], st_["inside"])
        try:
            if st_["runs"] == 1:
                raise Boom()
            v = 40 + st_["runs"]
        finally:
            st_["inside"] -= 1
        st_["returns"].append(sched.steps)
        return v

    body = {"fast": body_fast, "slow": body_slow, "throw-first": body_throw_first}[cfg["body"]]
    with sched.patched():
        d = s["delay"].Delay(body)
    results = []

    def worker(tid):
        def run():
            seen = []
            for _ in range(cfg["derefs"]):
                r0 = bool(s["realized?"](d))
                try:
                    v = ("ok", s["deref"](d))
                except detsched.SchedAbort:
                    raise
                except Boom:
                    v = ("raise", "Boom")
                r1 = bool(s["realized?"](d))
                seen.append((r0, v, r1))
            results.append((tid, seen))
        return run

    for t in range(cfg["threads"]):
        sched.spawn(worker(t))
    aborted = sched.run()
    return dict(st=st_, results=results, aborted=aborted, sched=sched)


def check_delay(rec, cfg, choices):
    case = {"kind": "delay", "config": cfg, "choices": choices}
    out = run_delay(cfg, choices)
    sched = out["sched"]
    rec.case(canon(["delay", cfg, choices[:sched.ci]]), nontrivial=sched.preemptions > 0, cls=[f"delay/{cfg['body']}", f"preemptions/{min(sched.preemptions, 3)}"],
             sample={"config": cfg, "choices": choices[:40], "preemptions": sched.preemptions}, sub="delay")
    if out["aborted"] is not None:
        raise Violation(f"delay-{type(out['aborted']).__name__}", case, str(out["aborted"]))
    s_ = out["st"]
    if s_["max_inside"] > 1:
        raise Violation("delay-body-run-by-two-threads-at-once", case, f"{s_['max_inside']} threads were inside the delay body at the same time ({s_['runs']} runs)")
    if s_["returns"] and any(start > s_["returns"][0] for start in s_["starts"]):
        raise Violation("delay-body-run-again-after-a-run-returned", case, f"body starts at steps {s_['starts']}, first return at step {s_['returns'][0]} ({s_['runs']} runs)")
    if s_["returns"] and len(s_["returns"]) > 1:
        raise Violation("delay-body-returned-more-than-once", case, f"{len(s_['returns'])} completed runs")
    vals = {v[1] for _, seen in out["results"] for (_, v, _) in seen if v[0] == "ok"}
    if len(vals) > 1:
        raise Violation("delay-derefs-disagree", case, f"deref results {sorted(vals)}")
    for tid, seen in out["results"]:
        flags = [f for (r0, v, r1) in seen for f in (r0, r1)]
        if any(a and not b for a, b in zip(flags, flags[1:])):
            raise Violation("delay-realized?-not-monotone", case, f"thread {tid}: realized? samples {flags}")
        for (r0, v, r1) in seen:
            if v[0] == "ok" and not r1:
                raise Violation("delay-deref-returned-but-not-realized", case, f"thread {tid}: {seen}")


# ---- promise ---------------------------------------------------------------------------------

def run_promise(cfg, choices):
    s = S()
    sched = detsched.Sched(choices, trace_filter, max_steps=6000)
    with sched.patched():
        p = s["promise"].Promise()
    events = []      # (step, tid, kind, payload)

    def worker(tid, ops):
        def run():
            for op in ops:
                if op[0] == "deliver":
                    events.append((sched.steps, tid, "deliver-inv", op[1]))
                    s["deliver"](p, op[1])
                    events.append((sched.steps, tid, "deliver-ret", op[1]))
                elif op[0] == "deref":
                    events.append((sched.steps, tid, "deref-inv", None))
                    v = s["deref"](p)
                    events.append((sched.steps, tid, "deref-ret", v))
                elif op[0] == "timed":
                    events.append((sched.steps, tid, "timed-inv", None))
                    v = s["deref"](p, 50, "TIMEOUT")
                    events.append((sched.steps, tid, "timed-ret", v))
                else:
                    events.append((sched.steps, tid, "realized", bool(s["realized?"](p))))
        return run

    for t, ops in enumerate(cfg["threads"]):
        sched.spawn(worker(t, ops))
    aborted = sched.run()
    return dict(events=events, aborted=aborted, sched=sched)


def check_promise(rec, cfg, choices):
    case = {"kind": "promise", "config": cfg, "choices": choices}
    out = run_promise(cfg, choices)
    sched = out["sched"]
    has_deliver = any(op[0] == "deliver" for ops in cfg["threads"] for op in ops)
    plain_derefs = any(op[0] == "deref" for ops in cfg["threads"] for op in ops)
    rec.case(canon(["promise", cfg, choices[:sched.ci]]), nontrivial=sched.preemptions > 0, cls=["promise", f"preemptions/{min(sched.preemptions, 3)}"],
             sample={"config": cfg, "choices": choices[:40], "preemptions": sched.preemptions}, sub="promise")
    ev = out["events"]
    if out["aborted"] is not None:
        if isinstance(out["aborted"], detsched.Deadlock) and plain_derefs and not has_deliver:
            return      # blocking forever on a promise nobody delivers is the documented behaviour
        # a deadlock with a deliver in the configuration: legitimate only if every deliverer is itself
        # blocked behind a plain deref of the same thread
        blocked_by_design = all(any(o[0] == "deref" for o in ops[:next((k for k, o in enumerate(ops) if o[0] == "deliver"), len(ops))])
                                for ops in cfg["threads"] if any(o[0] == "deliver" for o in ops))
        if isinstance(out["aborted"], detsched.Deadlock) and blocked_by_design:
            return
        raise Violation(f"promise-{type(out['aborted']).__name__}", case, f"{out['aborted']}; events {ev}")
    delivered_rets = [(st_, v) for (st_, t, k, v) in ev if k == "deliver-ret"]
    first_ret = min(delivered_rets)[0] if delivered_rets else None
    values = {v for (_, _, k, v) in ev if k == "deref-ret"} | {v for (_, _, k, v) in ev if k == "timed-ret" and v != "TIMEOUT"}
    if len(values) > 1:
        raise Violation("promise-two-different-values-observed", case, f"derefs saw {sorted(values)}; events {ev}")
    offered = {v for (_, _, k, v) in ev if k == "deliver-inv"}
    if values and not values <= offered:
        raise Violation("promise-value-never-delivered", case, f"derefs saw {values}, delivered {offered}")
    # per thread: invocation/return pairs
    for t in range(len(cfg["threads"])):
        mine = [(st_, k, v) for (st_, tt, k, v) in ev if tt == t]
        for (s0, k0, _), (s1, k1, v1) in zip(mine, mine[1:]):
            if k0 in ("deref-inv", "timed-inv") and k1 in ("deref-ret", "timed-ret"):
                if first_ret is not None and s0 > first_ret and v1 == "TIMEOUT":
                    raise Violation("promise-timed-deref-missed-a-delivered-value", case,
                                    f"thread {t}: timed deref invoked at step {s0}, after a deliver completed at step {first_ret}, returned the time-out value; events {ev}")
        flags = [v for (_, k, v) in mine if k == "realized"]
        if any(a and not b for a, b in zip(flags, flags[1:])):
            raise Violation("promise-realized?-not-monotone", case, f"thread {t}: {flags}")
    for (st_, t, k, v) in ev:
        if k == "realized" and first_ret is not None and st_ > first_ret and v is False:
            raise Violation("promise-not-realized-after-deliver", case, f"realized? false at step {st_}, deliver completed at {first_ret}")
    # first completed deliver wins: once a deliver has returned, any later-invoked deliver changes nothing
    if delivered_rets and values:
        winner = next(iter(values))
        later = [v for (st_, t, k, v) in ev if k == "deliver-inv" and st_ > first_ret]
        first_values = {v for (st_, v) in delivered_rets if st_ == first_ret}
        early = {v for (st_, t, k, v) in ev if k == "deliver-inv" and st_ <= first_ret}
        if winner not in early:
            raise Violation("promise-later-deliver-overwrote-the-value", case, f"value {winner} was delivered only after another deliver had completed; events {ev}")


# ---- future (real threads, gates) -------------------------------------------------------------

FUT_VALUES = ["int", "nil", "false", "vector", "exc-object", "timeout-kw"]
FUT_RAISES = ["Boom", "ValueError", "TimeoutError", "KeyError", "ex-info", "StopIteration"]


def _fut_outcome(s, outcome):
    """-> (thunk executed by the body after the gate opens, expected ('ok', v) | ('raise', class name))"""
    kind, name = outcome
    if kind == "value":
        v = {"int": 77, "nil": None, "false": False, "vector": boot.core("vector")(1, None, 2),
             "exc-object": ValueError("returned, not raised"), "timeout-kw": "TIMEOUT"}[name]
        return (lambda: v), ("ok", v)
    if name == "ex-info":
        exc = boot.core("ex-info")("boom", boot.core("hash-map")("k", 1))
    else:
        exc = {"Boom": Boom, "ValueError": ValueError, "TimeoutError": TimeoutError, "KeyError": KeyError,
               "StopIteration": StopIteration}[name]("raised by the body")

    def thunk():
        raise exc
    return thunk, ("raise", exc)


def _fut_obs(f):
    try:
        return ("ok", f())
    except BaseException as e:  # noqa - the observation *is* the exception
        return ("raise", e)


def _fut_same(obs, want):
    if obs[0] != want[0]:
        return False
    return obs[1] is want[1] if (want[0] == "raise" or isinstance(want[1], BaseException)) else (obs[1] == want[1] and type(obs[1]) is type(want[1]))


def check_future(rec, cfg):
    """cfg: {"outcome": "value"|"throw"|[kind, name], "derefs_before": n, "derefs_after": n, "via": "call"|"macro",
    "timed_after": bool, "poll": bool}: one future whose body blocks on a gate; derefs (plain and timed) before and
    after completion; realized?/future-done? sampled by a poller thread through the whole life of the future."""
    s = S()
    case = {"kind": "future", "config": cfg}
    outcome = cfg["outcome"]
    if isinstance(outcome, str):
        outcome = ["value", "int"] if outcome == "value" else ["throw", "Boom"]
    rec.case(canon(["future", cfg]), nontrivial=cfg["derefs_before"] > 0 or outcome[1] not in ("int", "Boom"), cls="future/" + outcome[0] + "/" + cfg.get("via", "call"),
             sample=cfg, sub="future")
    thunk, want = _fut_outcome(s, outcome)
    gate = threading.Event()
    started = threading.Event()
    runs = {"n": 0}

    def body():
        runs["n"] += 1
        started.set()
        if not gate.wait(60):
            runs["gate_timed_out"] = True       # harness starved: the case says nothing
        return thunk()

    if cfg.get("via") == "macro":
        fut = s["future-macro"](body)
    else:
        fut = s["future-call"](body)
    if not started.wait(30):
        rec.inconclusive += 1
        gate.set()
        return
    samples = [bool(s["realized?"](fut)), bool(s["future-done?"](fut))]
    if any(samples):
        gate.set()
        raise Violation("future-realized-before-body-finished", case, f"{samples}")
    polled = []
    stop_poll = threading.Event()

    def poller():
        while not stop_poll.is_set():
            polled.append((bool(s["realized?"](fut)), bool(s["future-done?"](fut))))
            stop_poll.wait(0.001)

    pt = threading.Thread(target=poller)
    if cfg.get("poll"):
        pt.start()
    early = []
    ths = [threading.Thread(target=lambda: early.append(_fut_obs(lambda: s["deref"](fut)))) for _ in range(cfg["derefs_before"])]
    for t in ths:
        t.start()
    timed = _fut_obs(lambda: s["deref"](fut, 1, "TIMEOUT"))
    if runs.get("gate_timed_out"):
        rec.inconclusive += 1
        stop_poll.set()
        return
    if timed != ("ok", "TIMEOUT"):
        gate.set()
        stop_poll.set()
        raise Violation("future-timed-deref-returned-before-body-finished", case, f"{timed!r}")
    gate.set()
    for t in ths:
        t.join(30)
    if any(t.is_alive() for t in ths):
        rec.inconclusive += 1
        stop_poll.set()
        return
    late = [_fut_obs(lambda: s["deref"](fut)) for _ in range(cfg["derefs_after"])]
    if cfg.get("timed_after"):
        # the body has finished: a timed deref must give its outcome, never the time-out value
        late.append(_fut_obs(lambda: s["deref"](fut, 5000, "TIMEOUT-AFTER")))
    stop_poll.set()
    if cfg.get("poll"):
        pt.join(10)
    bad = [r for r in early + late if not _fut_same(r, want)]
    if bad:
        raise Violation("future-deref-differs-from-body-outcome", case, f"expected {want!r}; got {early + late!r}")
    if runs["n"] != 1:
        raise Violation("future-body-ran-more-than-once", case, f"{runs['n']} runs")
    if not s["realized?"](fut) or not s["future-done?"](fut):
        raise Violation("future-not-realized-after-completion", case, "")
    for col in (0, 1):
        seen = False
        for smp in polled:
            if seen and not smp[col]:
                raise Violation("future-realized-not-monotone", case, f"column {col}: {polled[:50]}")
            seen = seen or smp[col]


def future_cfgs():
    outcome = st.one_of(st.tuples(st.just("value"), st.sampled_from(FUT_VALUES)), st.tuples(st.just("throw"), st.sampled_from(FUT_RAISES))).map(list)
    return st.fixed_dictionaries({"outcome": outcome, "derefs_before": st.integers(0, 3), "derefs_after": st.integers(1, 2),
                                  "via": st.sampled_from(["call", "macro"]), "timed_after": st.booleans(), "poll": st.booleans()})


# ---- generators ------------------------------------------------------------------------------

def choice_lists():
    return st.lists(st.sampled_from([0, 0, 0, 0, 0, 1, 1, 2, 3]), min_size=5, max_size=300)


def delay_cfgs():
    return st.fixed_dictionaries({"threads": st.integers(2, 4), "derefs": st.integers(1, 2), "body": st.sampled_from(["fast", "slow", "slow", "throw-first"])})


def promise_cfgs():
    op = st.one_of(st.tuples(st.just("deliver"), st.integers(1, 3)), st.tuples(st.just("timed")), st.tuples(st.just("timed")), st.tuples(st.just("realized")),
                   st.tuples(st.just("deref"))).map(list)
    return st.fixed_dictionaries({"threads": st.lists(st.lists(op, min_size=1, max_size=3), min_size=2, max_size=4)})


def single_preemptions(horizon, pairs=False):
    yield []
    for p in range(1, horizon):
        ch = [0] * (p + 1)
        ch[p] = 1
        yield ch
    if pairs:
        for p, q in itertools.combinations(range(1, horizon), 2):
            ch = [0] * (q + 1)
            ch[p] = 1
            ch[q] = 1
            yield ch


def shard(i, n, tier, seed, findings):
    c01.quiet_logging()
    rec = Recorder(ID)
    S()

    def guard(f, *a):
        try:
            f(rec, *a)
        except Violation as v:
            rec.violation(v.sig, v.case, v.detail, finding=v.finding, findings=findings)

    # systematic preemption points for fixed configurations
    j = 0
    for cfg in ({"threads": 2, "derefs": 1, "body": "slow"}, {"threads": 3, "derefs": 1, "body": "fast"}, {"threads": 2, "derefs": 2, "body": "throw-first"}):
        probe = run_delay(cfg, [])
        for ch in single_preemptions(min(probe["sched"].steps + 5, 300), pairs=(tier == "thorough")):
            j += 1
            if j % n == i:
                guard(check_delay, cfg, ch)
    for cfg in ({"threads": [[["deliver", 1]], [["deliver", 2]], [["timed"], ["realized"], ["timed"]]]},
                {"threads": [[["deref"], ["realized"]], [["deliver", 3]], [["timed"]]]}):
        probe = run_promise(cfg, [])
        for ch in single_preemptions(min(probe["sched"].steps + 5, 300), pairs=(tier == "thorough")):
            j += 1
            if j % n == i:
                guard(check_promise, cfg, ch)
    rec.exhaustive["fixed-configs-x-preemption-points"] = True

    ex = 100 if tier == "quick" else 2500
    hyp.drive(lambda c: check_delay(rec, c[0], c[1]), st.tuples(delay_cfgs(), choice_lists()), rec=rec, findings=findings, seed=seed * 1000 + i,
              max_examples=ex, to_case=lambda c: {"kind": "delay", "config": c[0], "choices": c[1]})
    hyp.drive(lambda c: check_promise(rec, c[0], c[1]), st.tuples(promise_cfgs(), choice_lists()), rec=rec, findings=findings, seed=seed * 1000 + i + 3,
              max_examples=ex, to_case=lambda c: {"kind": "promise", "config": c[0], "choices": c[1]})
    k = 0
    for outcome in [["value", v] for v in FUT_VALUES] + [["throw", c] for c in FUT_RAISES]:
        for before in (0, 2):
            for via in ("call", "macro"):
                k += 1
                if k % n == i:
                    guard(check_future, {"outcome": outcome, "derefs_before": before, "derefs_after": 1, "via": via, "timed_after": True, "poll": True})
    rec.exhaustive["future-outcomes-x-via-x-early-derefs"] = True
    hyp.drive(lambda c: check_future(rec, c), future_cfgs(), rec=rec, findings=findings, seed=seed * 1000 + i + 7,
              max_examples=4 if tier == "quick" else 60, to_case=lambda c: {"kind": "future", "config": c})
    return rec


def replay(case):
    c01.quiet_logging()
    rec = Recorder(ID)
    S()
    if case["kind"] == "delay":
        check_delay(rec, case["config"], case["choices"])
    elif case["kind"] == "promise":
        check_promise(rec, case["config"], case["choices"])
    else:
        check_future(rec, case["config"])
