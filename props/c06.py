"""C06 — lazy sequences realize each element once, only on demand, safely shared.

Single thread: generated pipelines (lazy-seq cells with counting producers, map filter concat take
drop, seqs over Python iterables) x generated consumption histories on shared handles (first rest
next seq nth count empty? realized? Python iteration, several positions held at once).  A lazy,
memoizing reference stream in Python gives the expected elements and the set of producers the
performed operations demand.  Threads: 2-3 consumers walk one sequence whose producers are plain /
yield the GIL / block on a gate / throw / touch the sequence recursively, following a generated
gate script; every case runs in a forked child watched from outside: a child none of whose threads
consumes CPU any more while work is outstanding is deadlocked (quiescence, not a wall clock)."""
from __future__ import annotations

import itertools
import json
import os
import signal
import sys
import threading
import time

from hypothesis import strategies as st

from vlib import boot, hyp
from vlib.harness import Recorder, Violation, canon
from props import c01

ID = "C06"
MANIFEST = {
    "technique": "Hypothesis-generated lazy pipelines x consumption histories against a lazy memoizing reference stream (elements, producer run counts, demanded set); generated gate scripts over real consumer threads in forked children with an external quiescence watchdog; exhaustive small gate-script space",
    "text": "random and bounded-exhaustive search over consumption histories and thread schedules: single-threaded histories over pipelines of lazy-seq/map/filter/concat/take/drop and seqs over Python iterables are compared with a reference stream for the elements seen by every handle, for at-most-once execution of every producer and for 'only what some consumer demanded is computed'; exceptions from a producer must propagate and a later access must re-raise or deliver the right elements; 10^5-element walks must not grow the stack. With threads, 2-3 consumers share one sequence whose producers plainly return, release the GIL, block on gates, throw or touch the sequence recursively; each run happens in a forked child and must end with identical observations and per-cell run count <= 1; a child whose threads have all stopped consuming CPU with work outstanding is a deadlock.",
    "note": "interleavings inside the native (Rust) code are sampled by the OS scheduler, not enumerated: only producer-side blocking points are owned by the gate script; the deadlock verdict rests on quiescence of the child (no CPU progress over repeated samples), a plain time-out only makes a case inconclusive",
    "engine": "E8 sequence models + E5 gated real threads with zygote/watchdog",
}
LEVEL = "exploration"
NSHARDS = 16
RULE = ("Hypothesis (pipeline, consumption history) pairs; exhaustive 2-consumer x 3-cell gate scripts + Hypothesis thread cases. "
        "Non-trivial = a cell is observed by >=2 handles/threads, or a producer blocks/throws, or demand is non-monotone; "
        "distinct by the case description.")
ASSUMPTIONS = [
    "reference demand = the standard (unchunked) lazy definitions: first/seq/empty? force one cell, rest forces the cell it leaves, next forces two, nth k forces k+1, count forces all",
    "after a producer has thrown, a later access may re-raise a remembered exception or re-run the producer (at-most-once counts runs that returned)",
    "thread part: native interleavings are sampled, not enumerated",
]


class Boom(Exception):
    pass


_S = {}


def S():
    if _S:
        return _S
    from basilisp.lang import seq as lseq, vector as vec, runtime
    from basilisp.lang.interfaces import ISeq
    d = dict(lseq=lseq, vec=vec, runtime=runtime, ISeq=ISeq)
    for n in ("cons", "first", "rest", "next", "seq", "nth", "count", "empty?", "realized?", "map", "filter", "concat", "take", "drop",
              "inc", "even?", "odd?", "doall", "dorun", "iterator-seq", "range", "iterate", "repeatedly", "identity", "lazy-seq"):
        d[n] = boot.core(n)
    _S.update(d)
    return _S


# ---- reference: lazy memoizing stream --------------------------------------------------------

class MS:
    __slots__ = ("thunk", "val", "done")

    def __init__(self, thunk):
        self.thunk, self.val, self.done = thunk, None, False

    def force(self):
        """-> None (empty) or (first, rest MS). Exceptions propagate and leave the cell unforced."""
        if not self.done:
            v = self.thunk()
            while isinstance(v, MS):       # a producer that returns another lazy seq
                v = v.force()
            self.val, self.done = v, True
        return self.val


EMPTY_MS = MS(lambda: None)


def ms_from_list(xs):
    def mk(i):
        return MS(lambda: (xs[i], mk(i + 1)) if i < len(xs) else None)
    return mk(0)


def ms_map(f, s):
    def th():
        c = s.force()
        return None if c is None else (f(c[0]), ms_map(f, c[1]))
    return MS(th)


def ms_filter(p, s):
    def th():
        cur = s
        while True:
            c = cur.force()
            if c is None:
                return None
            if p(c[0]):
                return (c[0], ms_filter(p, c[1]))
            cur = c[1]
    return MS(th)


def ms_take(n, s):
    def th():
        if n <= 0:
            return None
        c = s.force()
        return None if c is None else (c[0], ms_take(n - 1, c[1]))
    return MS(th)


def ms_drop(n, s):
    def th():
        cur, k = s, n
        while k > 0:
            c = cur.force()
            if c is None:
                return None
            cur, k = c[1], k - 1
        return cur.force()
    return MS(th)


def ms_concat(a, b):
    def th():
        c = a.force()
        if c is None:
            return b.force()
        return (c[0], ms_concat(c[1], b))
    return MS(th)


# ---- base sequences with counting producers -----------------------------------------------------

class Base:
    """N cells; kinds[i] in {"val", "throw", "nested"}; real lazy seq + model stream + run counters"""

    def __init__(self, kinds, start=100):
        s = S()
        self.kinds = kinds
        self.started = [0] * (len(kinds) + 1)
        self.returned = [0] * (len(kinds) + 1)
        self.model_forced = set()
        n = len(kinds)

        def real_cell(i):
            def thunk():
                self.started[i] += 1
                if i >= n:
                    self.returned[i] += 1
                    return None
                if kinds[i] == "throw":
                    raise Boom()
                nxt = real_cell(i + 1)
                if kinds[i] == "nested":
                    inner = s["lseq"].LazySeq(lambda: s["cons"](start + i, nxt))
                    self.returned[i] += 1
                    return inner
                self.returned[i] += 1
                return s["cons"](start + i, nxt)
            return s["lseq"].LazySeq(thunk)

        def model_cell(i):
            def thunk():
                self.model_forced.add(i)
                if i >= n:
                    return None
                if kinds[i] == "throw":
                    raise Boom()
                return (start + i, model_cell(i + 1))
            return MS(thunk)

        self.real = real_cell(0)
        self.model = model_cell(0)


class Acct:
    """run accounting for sources whose elements are produced by a harness callback: element k is
    produced by the k-th call (iterate: f applied to element k-1; repeatedly: k-th call of f;
    counting iterable: k-th __next__)"""

    def __init__(self):
        import collections
        self.started = collections.Counter()
        self.returned = collections.Counter()
        self.model_forced = set()
        self.kinds = []

    def ms(self, first_free, limit=None):
        """model stream of 0 1 2 ..; forcing cell j marks producer j as demanded (cell 0 is free for
        iterate: x itself); limit = length of a finite source (forcing the end marks producer `limit`)"""
        def cell(j):
            def thunk():
                if not (first_free and j == 0):
                    self.model_forced.add(j)
                if limit is not None and j >= limit:
                    return None
                return (j, cell(j + 1))
            return MS(thunk)
        return cell(0)


class CountingIterable:
    def __init__(self, acct, n):
        self.acct, self.n, self.iters = acct, n, 0

    def __iter__(self):
        self.iters += 1
        acct, n = self.acct, self.n

        class It:
            def __init__(self):
                self.k = 0

            def __iter__(self):
                return self

            def __next__(self):
                k = self.k
                self.k += 1
                acct.started[k] += 1
                if k >= n:
                    raise StopIteration
                acct.returned[k] += 1
                return k
        return It()


def build_pipeline(spec):
    """spec = {"source": [...], "stages": [[name, arg]..]} -> (real, model, bases)"""
    s = S()
    src = spec["source"]
    bases = []
    if src[0] == "cells":
        b = Base(src[1])
        bases.append(b)
        real, model = b.real, b.model
    elif src[0] == "iterate":
        a = Acct()
        bases.append(a)

        def f(x):
            a.started[x + 1] += 1
            a.returned[x + 1] += 1
            return x + 1
        real, model = s["take"](src[1], s["iterate"](f, 0)), ms_take(src[1], a.ms(True))
    elif src[0] == "repeatedly":
        a = Acct()
        bases.append(a)
        box = [0]

        def g():
            k = box[0]
            box[0] += 1
            a.started[k] += 1
            a.returned[k] += 1
            return k
        real, model = s["take"](src[1], s["repeatedly"](g)), ms_take(src[1], a.ms(False))
    elif src[0] == "counting-iterable":
        a = Acct()
        bases.append(a)
        ci = CountingIterable(a, src[1])
        real, model = s["seq"](ci), a.ms(False, limit=src[1])
        # (seq coll) itself demands the first cell
        model.force()
        if real is None:
            real = s["lseq"].EMPTY
    elif src[0] == "pylist":
        real, model = s["seq"](list(src[1])), ms_from_list(list(src[1]))
        if real is None:
            real = s["lseq"].EMPTY
    elif src[0] == "vector":
        real, model = s["vec"].vector(src[1]), ms_from_list(list(src[1]))
    elif src[0] == "generator":
        items = list(src[1])
        real, model = s["iterator-seq"](iter(items)), ms_from_list(items)
    elif src[0] == "range":
        real, model = s["range"](src[1]), ms_from_list(list(range(src[1])))
    else:
        raise ValueError(src)
    for name, arg in spec["stages"]:
        if name == "map":
            real, model = s["map"](s["inc"], real), ms_map(lambda x: x + 1, model)
        elif name == "filter":
            real, model = s["filter"](s["even?"], real), ms_filter(lambda x: x % 2 == 0, model)
        elif name == "filter-odd":
            real, model = s["filter"](s["odd?"], real), ms_filter(lambda x: x % 2 == 1, model)
        elif name == "take":
            real, model = s["take"](arg, real), ms_take(arg, model)
        elif name == "drop":
            real, model = s["drop"](arg, real), ms_drop(arg, model)
        elif name == "concat":
            b2 = Base(["val"] * arg, start=200)
            bases.append(b2)
            real, model = s["concat"](real, b2.real), ms_concat(model, b2.model)
        elif name == "concat-front":
            b2 = Base(["val"] * arg, start=300)
            bases.append(b2)
            real, model = s["concat"](b2.real, real), ms_concat(b2.model, model)
        else:
            raise ValueError(name)
    return real, model, bases


def ms_nth_cell(m, k):
    """force k+1 cells; -> the cell (first, rest) or None"""
    cur = m
    c = None
    for _ in range(k + 1):
        c = cur.force()
        if c is None:
            return None
        cur = c[1]
    return c


def run_history(rec, spec, ops, count=True):
    s = S()
    case = {"kind": "history", "spec": spec, "ops": ops}
    real, model, bases = build_pipeline(spec)
    handles = [(real, model)]
    touched = {}
    flags = set()
    try:
        for step, op in enumerate(ops):
            name = op[0]
            h = op[1] % len(handles)
            r, m = handles[h]
            touched[h] = touched.get(h, 0) + 1
            want_exc = None
            try:
                if name == "first":
                    c = m.force()
                    want = None if c is None else c[0]
                elif name == "rest":
                    c = m.force()
                    want = "handle"
                    newm = EMPTY_MS if c is None else c[1]
                elif name == "next":
                    c = m.force()
                    newm = None
                    if c is not None and c[1].force() is not None:
                        newm = c[1]
                    want = "handle-or-nil"
                elif name in ("seq", "empty?"):
                    c = m.force()
                    want = (c is None) if name == "empty?" else ("nil" if c is None else "some")
                elif name == "nth":
                    c = ms_nth_cell(m, op[2])
                    want = "NOT-FOUND" if c is None else c[0]
                elif name == "count":
                    k, cur = 0, m
                    while True:
                        c = cur.force()
                        if c is None:
                            break
                        k, cur = k + 1, c[1]
                    want = k
                elif name == "iter":
                    out, cur = [], m
                    for _ in range(op[2]):
                        c = cur.force()
                        if c is None:
                            break
                        out.append(c[0])
                        cur = c[1]
                    want = out
                elif name == "realized?":
                    want = None
                else:
                    raise ValueError(op)
            except Boom:
                want_exc = "Boom"
                flags.add("producer-throws")
            try:
                if name == "first":
                    got = s["first"](r)
                elif name == "rest":
                    got = s["rest"](r)
                elif name == "next":
                    got = s["next"](r)
                elif name == "seq":
                    got = "nil" if s["seq"](r) is None else "some"
                elif name == "empty?":
                    got = bool(s["empty?"](r))
                elif name == "nth":
                    got = s["nth"](r, op[2], "NOT-FOUND")
                elif name == "count":
                    got = s["count"](r)
                elif name == "iter":
                    got = list(itertools.islice(iter(r), op[2]))
                elif name == "realized?":
                    got = None
                    if hasattr(r, "is_realized"):
                        s["realized?"](r)
                got_exc = None
            except Boom:
                got_exc = "Boom"
            except RecursionError:
                raise Violation("stack-grows-with-sequence-length", case, f"step {step} {op}")
            if want_exc or got_exc:
                if want_exc != got_exc:
                    if want_exc and not got_exc:
                        raise Violation("producer-exception-swallowed", case,
                                        f"step {step} {op}: the producer of a demanded cell throws, but the operation returned {got!r} (a later access must re-raise or give the right elements, never a silently different sequence)")
                    raise Violation("unexpected-producer-exception", case, f"step {step} {op}: raised {got_exc}, reference does not throw here")
                continue
            if name == "rest":
                handles.append((got, newm))
            elif name == "next":
                if (got is None) != (newm is None):
                    raise Violation("next-nil-mismatch", case, f"step {step} {op}: next returned {'nil' if got is None else 'a seq'}")
                if got is not None:
                    handles.append((got, newm))
            elif name != "realized?" and got != want:
                raise Violation(f"wrong-elements:{name}", case, f"step {step} {op}: got {got!r}, reference {want!r}")
        # at-most-once and demand
        for bi, b in enumerate(bases):
            ret = dict(enumerate(b.returned)) if isinstance(b.returned, list) else dict(b.returned)
            sta = dict(enumerate(b.started)) if isinstance(b.started, list) else dict(b.started)
            for i, k in sorted(ret.items()):
                if k > 1:
                    raise Violation("producer-ran-more-than-once", case, f"base {bi} cell {i}: {k} completed runs")
            real_forced = {i for i, k in sta.items() if k > 0}
            extra = real_forced - b.model_forced
            if extra:
                raise Violation("computed-beyond-demand", case,
                                f"base {bi}: producers {sorted(extra)} ran although the operations performed only demand {sorted(b.model_forced)}")
    except Violation:
        raise
    if count:
        shared = sum(1 for v in touched.values() if v > 1) > 0 or len(handles) > 1
        if shared:
            flags.add("shared-handles")
        rec.case(canon([spec, ops]), nontrivial=bool(flags), cls=sorted(flags) or ["single-handle"], sample={"spec": spec, "ops": ops}, sub="single-thread")


def check_long_walk(rec, n):
    s = S()
    case = {"kind": "long-walk", "n": n}
    rec.case(canon(case), nontrivial=True, cls="long-walk", sample=case, sub="single-thread")
    counter = {"n": 0}

    def cell(i):
        def thunk():
            counter["n"] += 1
            return None if i >= n else s["cons"](i, cell(i + 1))
        return s["lseq"].LazySeq(thunk)
    head = cell(0)
    try:
        total = 0
        for x in s["map"](s["inc"], s["filter"](s["even?"], head)):
            total += 1
        c2 = s["count"](head)
    except RecursionError:
        raise Violation("stack-grows-with-sequence-length", case, f"walking {n} elements raised RecursionError")
    if total != (n + 1) // 2 or c2 != n or counter["n"] != n + 1:
        raise Violation("long-walk-wrong", case, f"saw {total} mapped elements, count {c2}, {counter['n']} producer runs for {n} cells")


# ---- threads: forked child + watchdog ----------------------------------------------------------

def child_body(case):
    """runs in the forked child; returns a JSON-able report"""
    s = S()
    kinds = case["cells"]
    n = len(kinds)
    gates = {i: threading.Event() for i, k in enumerate(kinds) if k == "gate"}
    arrived = {i: threading.Event() for i in gates}
    started = [0] * (n + 1)
    returned = [0] * (n + 1)
    head_box = {}

    def cell(i):
        def thunk():
            started[i] += 1
            if i >= n:
                returned[i] += 1
                return None
            k = kinds[i]
            if k == "yield":
                time.sleep(0.002)
            elif k == "gate":
                arrived[i].set()
                gates[i].wait(30)
            elif k == "throw":
                raise Boom()
            elif k == "recursive":
                s["first"](head_box["head"])
            returned[i] += 1
            return s["cons"](100 + i, cell(i + 1))
        return s["lseq"].LazySeq(thunk)

    head = cell(0)
    head_box["head"] = head
    obs = {}

    def entry():
        w = case.get("wrap", "none")
        if w == "own-outer":          # each consumer reaches the shared cells through its own outer lazy seq
            return s["lseq"].LazySeq(lambda: head)
        if w == "own-map":            # ... or through its own lazy pipeline over the shared cells
            return s["map"](s["identity"], head)
        return head

    def consumer(ci, style):
        try:
            mine = entry()
            if style == "iter":
                obs[ci] = ["ok", list(iter(mine))]
            elif style == "count":
                obs[ci] = ["ok", s["count"](mine)]
            elif style == "first-rest":
                out, cur = [], mine
                while s["seq"](cur) is not None:
                    out.append(s["first"](cur))
                    cur = s["rest"](cur)
                obs[ci] = ["ok", out]
            else:
                obs[ci] = ["ok", list(s["doall"](s["map"](s["identity"], mine)) or [])]
        except Boom:
            obs[ci] = ["raise", "Boom"]
        except BaseException as e:  # noqa
            obs[ci] = ["raise", type(e).__name__ + ": " + str(e)[:100]]

    threads = [threading.Thread(target=consumer, args=(ci, st_), daemon=True) for ci, st_ in enumerate(case["consumers"])]
    for t in threads:
        t.start()
        time.sleep(case.get("stagger", 0) / 1000.0)
    # gate script: open gates in the generated order, each after it has been reached (or is unreachable)
    for g in case["gate_order"]:
        if g in gates:
            arrived[g].wait(2)
            time.sleep(0.003)
            gates[g].set()
    for g in gates.values():
        g.set()
    for t in threads:
        t.join(25)
    return {"obs": {str(k): v for k, v in obs.items()}, "started": started, "returned": returned,
            "alive": [t.is_alive() for t in threads]}


def cpu_ticks(pid):
    total = 0
    try:
        for tid in os.listdir(f"/proc/{pid}/task"):
            with open(f"/proc/{pid}/task/{tid}/stat") as fh:
                parts = fh.read().rsplit(")", 1)[1].split()
                if parts[0] in ("R", "D"):
                    return None        # a thread that is runnable (or in I/O) is not blocked, however starved it is
                total += int(parts[11]) + int(parts[12])
    except OSError:
        return None
    return total


def run_thread_case(case, budget_s=40):
    """fork; -> ("ok", report) | ("deadlock", info) | ("inconclusive", why) | ("crash", info)"""
    r, w = os.pipe()
    pid = os.fork()
    if pid == 0:
        os.close(r)
        try:
            rep = child_body(case)
            os.write(w, json.dumps(rep).encode())
        except BaseException as e:  # noqa
            try:
                os.write(w, json.dumps({"child_error": f"{type(e).__name__}: {e}"}).encode())
            except OSError:
                pass
        finally:
            os._exit(0)
    os.close(w)
    t0 = time.time()
    last, quiet = None, 0
    try:
        while True:
            done, _ = os.waitpid(pid, os.WNOHANG)
            if done:
                data = b""
                while True:
                    chunk = os.read(r, 65536)
                    if not chunk:
                        break
                    data += chunk
                if not data:
                    return ("crash", "child exited without a report")
                rep = json.loads(data.decode())
                return ("crash", rep["child_error"]) if "child_error" in rep else ("ok", rep)
            ticks = cpu_ticks(pid)
            if ticks is not None and ticks == last:
                quiet += 1
            else:
                quiet = 0
            last = ticks
            # gates stay closed for at most ~2 s each; after that every thread can only be blocked on the
            # sequence itself: 3 s without a single CPU tick in any thread is a deadlock
            if quiet >= 12 and time.time() - t0 > 2 + 2.5 * len(case["cells"]):
                return ("deadlock", f"no thread of the child consumed CPU for {quiet} consecutive samples; {time.time() - t0:.1f}s after start")
            if time.time() - t0 > budget_s:
                return ("inconclusive", "budget exceeded while the child was still consuming CPU")
            time.sleep(0.25)
    finally:
        try:
            os.kill(pid, signal.SIGKILL)
        except OSError:
            pass
        try:
            os.waitpid(pid, 0)
        except OSError:
            pass
        os.close(r)


def check_thread_case(rec, case):
    c = dict(case, kind="threads")
    blocking = any(k in ("gate", "yield", "throw", "recursive") for k in case["cells"])
    rec.case(canon(case), nontrivial=True, cls=["threads/" + "+".join(sorted(set(case["cells"])))], sample=case, sub="threads")
    verdict, info = run_thread_case(case)
    if verdict == "inconclusive":
        rec.inconclusive += 1
        return
    if verdict == "deadlock":
        raise Violation("concurrent-consumers-deadlock", c, f"{info}; cells {case['cells']}, consumers {case['consumers']}")
    if verdict == "crash":
        raise Violation("child-crashed", c, str(info))
    rep = info
    if any(rep["alive"]):
        # the child's own join ran out of time although its threads were not quiescent (the watchdog would have
        # said deadlock): a starved machine, not a verdict
        rec.inconclusive += 1
        return
    n = len(case["cells"])
    throw_at = next((i for i, k in enumerate(case["cells"]) if k == "throw"), None)
    want = ["raise", "Boom"] if throw_at is not None else None
    for ci, style in enumerate(case["consumers"]):
        o = rep["obs"].get(str(ci))
        if o is None:
            raise Violation("consumer-without-result", c, f"{rep}")
        if want is not None:
            if o != want:
                raise Violation("producer-exception-not-propagated-to-every-consumer", c, f"consumer {ci} ({style}) observed {o}; cell {throw_at} throws")
            continue
        exp = n if style == "count" else [100 + i for i in range(n)]
        if o != ["ok", exp]:
            raise Violation("consumers-observe-different-elements", c, f"consumer {ci} ({style}) observed {o}; expected {exp}")
    for i, k in enumerate(rep["returned"]):
        if k > 1:
            raise Violation("producer-ran-more-than-once", c, f"cell {i} completed {k} runs with {len(case['consumers'])} consumers; report {rep}")


# ---- generators ------------------------------------------------------------------------------

def specs():
    cells = st.lists(st.sampled_from(["val", "val", "val", "val", "nested", "throw"]), min_size=0, max_size=8).map(
        lambda ks: [k if (k != "throw" or i == max(j for j, x in enumerate(ks) if x == "throw")) else "val" for i, k in enumerate(ks)])
    source = st.one_of(cells.map(lambda ks: ["cells", ks]), cells.map(lambda ks: ["cells", ks]),
                       st.lists(st.integers(0, 9), max_size=6).map(lambda xs: ["pylist", xs]), st.lists(st.integers(0, 9), max_size=6).map(lambda xs: ["vector", xs]),
                       st.lists(st.integers(0, 9), max_size=6).map(lambda xs: ["generator", xs]), st.integers(0, 7).map(lambda n: ["range", n]),
                       st.integers(0, 7).map(lambda n: ["iterate", n]), st.integers(0, 7).map(lambda n: ["repeatedly", n]),
                       st.integers(0, 7).map(lambda n: ["counting-iterable", n]))
    stage = st.one_of(st.tuples(st.just("map"), st.none()), st.tuples(st.just("filter"), st.none()), st.tuples(st.just("filter-odd"), st.none()),
                      st.tuples(st.just("take"), st.integers(0, 5)), st.tuples(st.just("drop"), st.integers(0, 4)),
                      st.tuples(st.just("concat"), st.integers(0, 3)), st.tuples(st.just("concat-front"), st.integers(0, 3))).map(list)
    return st.fixed_dictionaries({"source": source, "stages": st.lists(stage, max_size=3)})


def histories():
    h = st.integers(0, 5)
    op = st.one_of(st.tuples(st.just("first"), h), st.tuples(st.just("rest"), h), st.tuples(st.just("rest"), h), st.tuples(st.just("next"), h),
                   st.tuples(st.just("seq"), h), st.tuples(st.just("empty?"), h), st.tuples(st.just("nth"), h, st.integers(0, 6)),
                   st.tuples(st.just("count"), h), st.tuples(st.just("iter"), h, st.integers(0, 5)), st.tuples(st.just("realized?"), h)).map(list)
    return st.lists(op, min_size=1, max_size=10)


def thread_cases():
    return st.fixed_dictionaries({
        "cells": st.lists(st.sampled_from(["plain", "plain", "yield", "gate", "recursive", "throw"]), min_size=1, max_size=5).map(
            lambda ks: [k if (k != "throw" or i == len(ks) - 1) else "plain" for i, k in enumerate(ks)]),
        "consumers": st.lists(st.sampled_from(["iter", "count", "first-rest", "doall"]), min_size=2, max_size=3),
        "gate_order": st.permutations([0, 1, 2, 3, 4]),
        "stagger": st.sampled_from([0, 0, 1, 3]),
        "wrap": st.sampled_from(["none", "none", "own-outer", "own-map"]),
    })


def shard(i, n, tier, seed, findings):
    c01.quiet_logging()
    rec = Recorder(ID)
    S()

    def guard(f, *a):
        try:
            f(rec, *a)
        except Violation as v:
            rec.violation(v.sig, v.case, v.detail, finding=v.finding, findings=findings)

    if i == 0:
        guard(check_long_walk, 100000 if tier == "quick" else 1000000)
    # exhaustive small thread space: 2 consumers x 3 cells over {plain, yield, gate} x gate orders
    k = 0
    for kinds in itertools.product(["plain", "yield", "gate"], repeat=3):
        gs = [idx for idx, x in enumerate(kinds) if x == "gate"]
        for order in (itertools.permutations(gs) if gs else [()]):
            for cons, wrap in ((["iter", "first-rest"], "none"), (["count", "doall"], "none"), (["iter", "count"], "own-outer"), (["first-rest", "doall"], "own-map")):
                k += 1
                if k % n != i:
                    continue
                if tier == "quick" and (k // n) % 2 == 1:
                    continue
                guard(check_thread_case, {"cells": list(kinds), "consumers": cons, "gate_order": list(order), "stagger": 0, "wrap": wrap})
    rec.exhaustive["2-consumers-x-3-cells-gate-scripts"] = tier == "thorough"

    hyp.drive(lambda c: run_history(rec, c[0], c[1]), st.tuples(specs(), histories()), rec=rec, findings=findings, seed=seed * 1000 + i,
              max_examples=300 if tier == "quick" else 6000, to_case=lambda c: {"kind": "history", "spec": c[0], "ops": c[1]})
    hyp.drive(lambda c: check_thread_case(rec, c), thread_cases(), rec=rec, findings=findings, seed=seed * 1000 + i + 5,
              max_examples=12 if tier == "quick" else 300, shrink=False, max_sigs=3, to_case=lambda c: dict(c, kind="threads"))
    return rec


def replay(case):
    c01.quiet_logging()
    rec = Recorder(ID)
    S()
    if case["kind"] == "history":
        run_history(rec, case["spec"], case["ops"], count=False)
    elif case["kind"] == "long-walk":
        check_long_walk(rec, case["n"])
    else:
        c = {k: v for k, v in case.items() if k != "kind"}
        check_thread_case(rec, c)
