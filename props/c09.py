"""C09 — syntax-quote is hygienic and destructuring binds what nth/nthnext/get would return.

(A) Destructuring: patterns of nesting <= 3 from the documented vocabulary x values (conforming,
    too short, nil, wrongly typed) x binding site (let, fn params, loop, & {..} keyword arguments).
    Oracle: an independent pattern walker that calls the real nth (nil default) / nthnext / get exactly
    as docs/concepts.rst prescribes; also (eval form) == (eval (macroexpand form)).
(B) Syntax-quote: templates of depth <= 3 over symbol kinds (core-referred, interned locally,
    referred, aliased, fully qualified, special form, x#, &, interop) with ~e / ~@e inside
    list/vector/map/set, read under generated namespace states.  Oracle: reference expander giving
    the expected data (gensyms up to a consistent bijection, fresh across templates and reads)."""
from __future__ import annotations

import itertools
import re

from hypothesis import strategies as st

from vlib import boot, hyp
from vlib.harness import Recorder, Violation, canon
from props import c01

ID = "C09"
MANIFEST = {
    "technique": "Hypothesis generation of destructuring patterns x values x binding sites against an independent pattern walker over the real nth/nthnext/get; Hypothesis syntax-quote templates x namespace states against a reference expander; macroexpansion equivalence",
    "text": "random search with explicit oracles: destructuring patterns (vector patterns with & rest and :as, map patterns with :keys/:strs/:syms, namespaced variants, symbol-key pairs with keyword/string/quoted-symbol/integer keys, :or, :as, nested patterns, & {..} keyword arguments) are compiled in let, fn and loop over conforming, short, nil and wrongly-typed values and every bound name is compared with what nth/nthnext/get return; syntax-quote templates are read under generated namespace states (aliases, refers, local interns) and the evaluated form is compared with a reference expansion (resolution rule of the statement, gensym consistency and freshness, splicing, collection types). Holds for the generated cases only.",
    "note": "the walker uses the real nth/nthnext/get as the definition of what a name should be bound to (the property is about the destructuring compiler and the reader's syntax-quote, not about nth/get); nested syntax-quotes are not generated",
    "engine": "E8 sequence models + E1",
}
LEVEL = "exploration"
NSHARDS = 16
RULE = ("Hypothesis destructuring cases (pattern nesting<=3) x 4 binding sites + syntax-quote templates (depth<=3) x namespace states. "
        "Non-trivial = pattern nesting>=2, or a value not conforming to the pattern, or :or / namespaced keys, or a splice; "
        "distinct by rendered source.")
ASSUMPTIONS = [
    "vector patterns bind as by (nth v i nil) and (nthnext v n); map patterns as by (get m k) / (get m k default) for :or; a seq value under a map pattern is first poured into a map (keyword-argument convention)",
    "an exception raised by nth/get on a wrongly typed value must surface as the same exception class",
]

_S = {}


def S():
    if _S:
        return _S
    from basilisp.lang import keyword as kw, symbol as sym, vector as vec, list as llist, map as lmap, set as lset, runtime, reader
    from basilisp.lang.interfaces import ISeq, ISequential, IPersistentMap, IPersistentSet, IPersistentVector, IPersistentList
    d = dict(kw=kw, sym=sym, vec=vec, llist=llist, lmap=lmap, lset=lset, runtime=runtime, reader=reader, ISeq=ISeq, ISequential=ISequential,
             IPersistentMap=IPersistentMap, IPersistentSet=IPersistentSet, IPersistentVector=IPersistentVector,
             IPersistentList=IPersistentList)
    for n in ("nth", "nthnext", "get", "seq", "apply", "hash-map", "seq?", "pr-str", "=", "macroexpand", "contains?", "map?"):
        d[n] = boot.core(n)
    _S.update(d)
    return _S


# =========================================================================================
# (A) destructuring
#
# value AST (JSON): None/True/False/int/["kw",ns,name]/["s",text]/["sym",ns,name]/["v",[..]]/["l",[..]]/["m",[[k,v]..]]/["e",[..]]
# pattern AST: ["sym", name] | ["vec", [pat..], rest_pat|None, as|None] |
#   ["map", [entry..], {name: default-value}, as|None]; entry = ["bind", pat, keyvalue] | ["keys", ns|None, [names]] |
#   ["strs", [names]] | ["syms", ns|None, [names]]

def render_value(v, quoted=True):
    if v is None:
        return "nil"
    if v is True:
        return "true"
    if v is False:
        return "false"
    if isinstance(v, int):
        return str(v)
    t = v[0]
    if t == "kw":
        return ":" + (v[1] + "/" if v[1] else "") + v[2]
    if t == "s":
        return '"' + v[1] + '"'
    if t == "sym":
        return ("" if quoted else "'") + (v[1] + "/" if v[1] else "") + v[2]
    if t == "v":
        return "[" + " ".join(render_value(x, quoted) for x in v[1]) + "]"
    if t == "l":
        return ("" if quoted else "'") + "(" + " ".join(render_value(x, True) for x in v[1]) + ")"
    if t == "m":
        return "{" + " ".join(render_value(k, quoted) + " " + render_value(x, quoted) for k, x in v[1]) + "}"
    if t == "e":
        return "#{" + " ".join(render_value(x, quoted) for x in v[1]) + "}"
    raise ValueError(v)


def build_value(v):
    s = S()
    if v is None or isinstance(v, (bool, int)):
        return v
    t = v[0]
    if t == "kw":
        return s["kw"].keyword(v[2], ns=v[1])
    if t == "s":
        return v[1]
    if t == "sym":
        return s["sym"].symbol(v[2], ns=v[1])
    if t == "v":
        return s["vec"].vector([build_value(x) for x in v[1]])
    if t == "l":
        return s["llist"].list([build_value(x) for x in v[1]])
    if t == "m":
        m = s["lmap"].EMPTY
        for k, x in v[1]:
            m = m.assoc(build_value(k), build_value(x))
        return m
    if t == "e":
        return s["lset"].set([build_value(x) for x in v[1]])
    raise ValueError(v)


def render_pattern(p):
    t = p[0]
    if t == "sym":
        return p[1]
    if t == "vec":
        parts = [render_pattern(x) for x in p[1]]
        if p[2] is not None:
            parts += ["&", render_pattern(p[2])]
        if p[3] is not None:
            parts += [":as", p[3]]
        return "[" + " ".join(parts) + "]"
    if t == "map":
        parts = []
        for e in p[1]:
            if e[0] == "bind":
                parts.append(render_pattern(e[1]) + " " + render_value(e[2], quoted=False))
            elif e[0] == "keys":
                parts.append(":" + (e[1] + "/" if e[1] else "") + "keys [" + " ".join(e[2]) + "]")
            elif e[0] == "strs":
                parts.append(":strs [" + " ".join(e[1]) + "]")
            elif e[0] == "syms":
                parts.append(":" + (e[1] + "/" if e[1] else "") + "syms [" + " ".join(e[2]) + "]")
        if p[2]:
            parts.append(":or {" + " ".join(f"{n} {render_value(dv, quoted=False)}" for n, dv in p[2].items()) + "}")
        if p[3] is not None:
            parts.append(":as " + p[3])
        return "{" + " ".join(parts) + "}"
    raise ValueError(p)


def bound_names(p):
    t = p[0]
    if t == "sym":
        return [p[1]]
    if t == "vec":
        out = []
        for x in p[1]:
            out += bound_names(x)
        if p[2] is not None:
            out += bound_names(p[2])
        if p[3] is not None:
            out.append(p[3])
        return out
    out = []
    for e in p[1]:
        if e[0] == "bind":
            out += bound_names(e[1])
        elif e[0] == "keys" or e[0] == "syms":
            out += [n.split("/")[-1] for n in e[2]]
        else:
            out += list(e[1])
    if p[3] is not None:
        out.append(p[3])
    return out


class Unspecified(Exception):
    """the documented vocabulary does not say what happens here: the case is skipped (counted)"""


def walk(p, value, env):
    """the documented meaning of a pattern, in terms of the REAL nth / nthnext / get"""
    s = S()
    t = p[0]
    if t == "sym":
        env[p[1]] = value
        return
    if t == "vec":
        for i, x in enumerate(p[1]):
            walk(x, s["nth"](value, i, None), env)
        if p[2] is not None:
            walk(p[2], s["nthnext"](value, len(p[1])), env)
        if p[3] is not None:
            env[p[3]] = value
        return
    # map pattern: for keyword arguments the seq of arguments is poured into a map first; a seq under
    # a map pattern anywhere else is not documented
    m = value
    if isinstance(value, (s["ISeq"], s["IPersistentList"])) or s["seq?"](value):
        if not env.pop("__kwargs__", False):
            raise Unspecified("a seq value under a map pattern outside keyword arguments")
        m = kwargs_map(value)
    defaults = p[2] or {}

    def fetch(key, name):
        if name in defaults:
            return s["get"](m, key, build_value(defaults[name]))
        return s["get"](m, key)

    for e in p[1]:
        if e[0] == "bind":
            name = e[1][1] if e[1][0] == "sym" else None
            walk(e[1], fetch(build_value(e[2]), name), env)
        elif e[0] == "keys":
            for n in e[2]:
                ns, _, nm = n.rpartition("/")
                env[nm] = fetch(s["kw"].keyword(nm, ns=(ns or e[1])), nm)
        elif e[0] == "syms":
            for n in e[2]:
                ns, _, nm = n.rpartition("/")
                env[nm] = fetch(s["sym"].symbol(nm, ns=(ns or e[1])), nm)
        else:
            for n in e[1]:
                env[n] = fetch(n, n)
    if p[3] is not None:
        env[p[3]] = m


def kwargs_map(seq_value):
    """documented keyword-argument convention: interleaved key/value pairs, optionally with a trailing map
    joined in"""
    s = S()
    items = list(seq_value)
    trailing = None
    if len(items) % 2 == 1:
        trailing = items[-1]
        items = items[:-1]
    m = s["lmap"].EMPTY
    for i in range(0, len(items), 2):
        m = m.assoc(items[i], items[i + 1])
    if trailing is not None:
        if not isinstance(trailing, s["IPersistentMap"]):
            raise Unspecified("odd number of keyword arguments without a trailing map")
        for k, v in trailing.items():
            m = m.assoc(k, v)
    return m


def same(x, y):
    s = S()
    if isinstance(x, bool) or isinstance(y, bool) or x is None or y is None:
        return x is y
    if isinstance(x, (s["ISeq"], s["ISequential"])) and isinstance(y, (s["ISeq"], s["ISequential"])):
        lx, ly = list(x), list(y)
        return len(lx) == len(ly) and all(same(a, b) for a, b in zip(lx, ly)) and \
            isinstance(x, s["IPersistentVector"]) == isinstance(y, s["IPersistentVector"])
    if isinstance(x, s["IPersistentMap"]) and isinstance(y, s["IPersistentMap"]):
        return len(x) == len(y) and all(k in y and same(v, y[k]) for k, v in x.items())
    return type(x) is type(y) and x == y


def nesting(p):
    t = p[0]
    if t == "sym":
        return 0
    if t == "vec":
        return 1 + max([nesting(x) for x in p[1]] + ([nesting(p[2])] if p[2] is not None else []) + [0])
    return 1 + max([nesting(e[1]) for e in p[1] if e[0] == "bind"] + [0])


def has_feature(p, f):
    t = p[0]
    if t == "sym":
        return False
    if t == "vec":
        return any(has_feature(x, f) for x in p[1]) or (p[2] is not None and has_feature(p[2], f))
    if f == "or" and p[2]:
        return True
    if f == "ns" and any((e[0] in ("keys", "syms") and (e[1] or any("/" in n for n in e[2]))) for e in p[1]):
        return True
    return any(has_feature(e[1], f) for e in p[1] if e[0] == "bind")


SITES = ["let", "fn", "loop", "kwargs"]


def case_source(site, p, v):
    names = bound_names(p)
    body = "[" + " ".join(names) + "]"
    pat = render_pattern(p)
    val = "(quote " + render_value(v) + ")"
    if site == "let":
        return f"(let [{pat} {val}] {body})", names
    if site == "fn":
        return f"((fn [{pat}] {body}) {val})", names
    if site == "loop":
        return f"(loop [{pat} {val}] {body})", names
    # kwargs: the value must be a list of call arguments
    return f"(apply (fn [& {pat}] {body}) {val})", names


def check_destructure(rec, site, p, v):
    s = S()
    ses = _session()
    src, names = case_source(site, p, v)
    conforming = True
    case = {"kind": "destructure", "site": site, "pattern": p, "value": v, "src": src}
    value = build_value(v)
    env = {}
    try:
        if site == "kwargs":
            args = list(value) if value is not None else []
            env["__kwargs__"] = True
            walk(p, s["llist"].list(args) if args else None, env)
        else:
            walk(p, value, env)
        want = ("ok", [env[n] for n in names])
    except Unspecified:
        rec.count("unspecified_cases_skipped")
        return
    except Exception as e:  # noqa
        want = ("raise", type(e).__name__)
        conforming = False
    nontriv = nesting(p) >= 2 or not conforming or has_feature(p, "or") or has_feature(p, "ns") or v is None or \
        (p[0] == "vec" and isinstance(v, list) and v[0] in ("v", "l") and len(v[1]) < len(p[1]))
    cls = [f"site/{site}", f"pattern/{p[0]}"]
    if has_feature(p, "or"):
        cls.append(":or")
    if has_feature(p, "ns"):
        cls.append("namespaced-keys")
    if want[0] == "raise":
        cls.append("value-of-wrong-type")
    rec.case(src, nontrivial=nontriv, cls=cls, sample=src, sub="destructuring")
    try:
        got_v = ses.eval(src)
        got = ("ok", list(got_v))
    except Exception as e:  # noqa
        got = ("raise", type(e).__name__)
        inner = e.__cause__
        if type(e).__name__ == "CompilerException" and inner is not None:
            got = ("raise", "CompilerException:" + type(inner).__name__)
    if want[0] == "raise":
        if got[0] != "raise":
            raise Violation("wrong-type-accepted", case, f"{src}: nth/get raise {want[1]} on this value but destructuring bound {boot.core('pr-str')(got_v)}")
        if got[1] != want[1]:
            raise Violation("exception-class-differs", case, f"{src}: destructuring raised {got[1]}, nth/get raise {want[1]}")
        return
    if got[0] == "raise":
        raise Violation(f"destructuring-raises:{got[1]}", case, f"{src}: raised {got[1]}; expected {[boot.core('pr-str')(x) for x in want[1]]}")
    if len(got[1]) != len(want[1]) or not all(same(a, b) for a, b in zip(got[1], want[1])):
        pr = boot.core("pr-str")
        bad = [n for n, a, b in zip(names, got[1], want[1]) if not same(a, b)]
        raise Violation("wrong-binding", case, f"{src}: names {bad}: bound {[pr(x) for x in got[1]]}; nth/nthnext/get give {[pr(x) for x in want[1]]}")
    # a form and its macroexpansion evaluate alike
    try:
        exp = ses.eval(f"(macroexpand (quote {src}))")
        got2 = list(ses.eval_form(exp))
    except Exception as e:  # noqa
        raise Violation("macroexpansion-evaluates-differently", case, f"{src}: evaluating the macroexpansion raised {type(e).__name__}: {e}")
    if len(got2) != len(got[1]) or not all(same(a, b) for a, b in zip(got2, got[1])):
        raise Violation("macroexpansion-evaluates-differently", case, f"{src}")


_SES = {}


def _session():
    if "d" not in _SES:
        _SES["d"] = boot.Session()
    return _SES["d"]


# ---- generators -------------------------------------------------------------------------------

NAMES = ["a", "b", "c", "d", "e", "x1", "y-z", "k?"]


def values(depth=2):
    scal = st.one_of(st.none(), st.booleans(), st.integers(0, 9), st.sampled_from([["kw", None, "a"], ["kw", None, "b"], ["kw", "n", "a"], ["s", "a"], ["s", "str"],
                                                                                    ["sym", None, "a"], ["sym", "n", "b"]]))

    def ext(ch):
        key = st.sampled_from([["kw", None, "a"], ["kw", None, "b"], ["kw", None, "c"], ["kw", "n", "a"], ["kw", "n", "c"], ["s", "a"], ["s", "b"],
                               ["sym", None, "a"], ["sym", None, "k"], ["sym", "n", "b"], 0, 1])
        return st.one_of(st.lists(ch, max_size=4).map(lambda xs: ["v", xs]), st.lists(ch, max_size=4).map(lambda xs: ["l", xs]),
                         st.lists(st.tuples(key, ch), max_size=4, unique_by=lambda t: canon(t[0])).map(lambda kvs: ["m", [list(kv) for kv in kvs]]),
                         st.lists(st.sampled_from([1, 2, ["kw", None, "a"], ["s", "a"]]), max_size=3, unique_by=canon).map(lambda xs: ["e", xs]))
    return st.recursive(scal, ext, max_leaves=10)


@st.composite
def patterns(draw, depth=3, used=None):
    used = used if used is not None else set()

    def fresh():
        pool = [n for n in NAMES if n not in used]
        if not pool:
            pool = [f"n{len(used)}"]
        n = draw(st.sampled_from(pool))
        used.add(n)
        return n

    kind = draw(st.sampled_from(["sym", "vec", "map"] if depth > 0 else ["sym"]))
    if kind == "sym":
        return ["sym", fresh()]
    if kind == "vec":
        elems = [draw(patterns(depth=depth - 1, used=used)) for _ in range(draw(st.integers(0, 3)))]
        rest = None
        if draw(st.integers(0, 2)) == 0:
            # docs: "a trailing *name* separated ... by an &"; & {..} is only documented for fn
            # parameters (generated separately as the kwargs site)
            rest = ["sym", fresh()]
        as_ = fresh() if draw(st.integers(0, 2)) == 0 else None
        return ["vec", elems, rest, as_]
    entries = []
    ornames = {}
    seen_kinds = set()
    for _ in range(draw(st.integers(0, 3))):
        ek = draw(st.sampled_from(["bind", "bind", "keys", "strs", "syms", "nskeys", "nssyms", "keys-nsname"]))
        if ek != "bind":
            # :keys / :n/keys / :strs / :syms / :n/syms may each appear once in a literal map
            slot = {"keys-nsname": "keys"}.get(ek, ek)
            if slot in seen_kinds:
                continue
            seen_kinds.add(slot)
        if ek == "bind":
            sub = draw(patterns(depth=depth - 1, used=used))
            if any(e[0] == "bind" and render_pattern(e[1]) == render_pattern(sub) for e in entries):
                continue    # the sub-pattern is a key of the literal map: it must be unique
            keyv = draw(st.sampled_from([["kw", None, "a"], ["kw", None, "b"], ["kw", "n", "a"], ["s", "a"], ["sym", None, "k"], ["sym", "n", "b"], 0, 1]))
            entries.append(["bind", sub, keyv])
            if sub[0] == "sym" and draw(st.integers(0, 2)) == 0:
                ornames[sub[1]] = draw(st.sampled_from([5, ["kw", None, "dflt"], None, False]))
        elif ek in ("keys", "nskeys"):
            ns = "n" if ek == "nskeys" else None
            ns_ = [fresh() for _ in range(draw(st.integers(1, 2)))]
            entries.append(["keys", ns, ns_])
            if draw(st.integers(0, 2)) == 0:
                ornames[ns_[0]] = draw(st.sampled_from([7, ["s", "d"], False]))
        elif ek == "keys-nsname":
            n1 = fresh()
            entries.append(["keys", None, ["n/" + n1]])
        elif ek == "strs":
            ns_ = [fresh() for _ in range(draw(st.integers(1, 2)))]
            entries.append(["strs", ns_])
        else:
            ns = "n" if ek == "nssyms" else None
            ns_ = [fresh() for _ in range(draw(st.integers(1, 2)))]
            entries.append(["syms", ns, ns_])
            if draw(st.integers(0, 3)) == 0:
                ornames[ns_[0]] = 9
    as_ = fresh() if draw(st.integers(0, 2)) == 0 else None
    return ["map", entries, ornames, as_]


def conforming_value(draw, p, depth=0):
    """a value shaped like the pattern (the generic value strategy provides the non-conforming ones)"""
    t = p[0]
    leaf = st.sampled_from([None, False, 0, 3, ["kw", None, "v"], ["s", "val"]])
    if t == "sym":
        return draw(leaf)
    if t == "vec":
        n = len(p[1]) + draw(st.integers(-1, 2))
        items = [conforming_value(draw, p[1][i], depth + 1) if i < len(p[1]) else draw(leaf) for i in range(max(n, 0))]
        return [draw(st.sampled_from(["v", "l"])), items]
    kvs = {}
    for e in p[1]:
        if e[0] == "bind":
            if draw(st.integers(0, 4)) > 0:
                kvs[canon(e[2])] = [e[2], conforming_value(draw, e[1], depth + 1)]
        elif e[0] == "keys":
            for n in e[2]:
                ns, _, nm = n.rpartition("/")
                if draw(st.integers(0, 3)) > 0:
                    k = ["kw", ns or e[1], nm]
                    kvs[canon(k)] = [k, draw(leaf)]
        elif e[0] == "syms":
            for n in e[2]:
                ns, _, nm = n.rpartition("/")
                if draw(st.integers(0, 3)) > 0:
                    k = ["sym", ns or e[1], nm]
                    kvs[canon(k)] = [k, draw(leaf)]
        else:
            for n in e[1]:
                if draw(st.integers(0, 3)) > 0:
                    k = ["s", n]
                    kvs[canon(k)] = [k, draw(leaf)]
    return ["m", list(kvs.values())]


@st.composite
def destructure_cases(draw):
    site = draw(st.sampled_from(SITES))
    if site == "kwargs":
        p = draw(patterns(depth=2).filter(lambda q: q[0] == "map"))
        m = conforming_value(draw, p)
        style = draw(st.sampled_from(["pairs", "map", "pairs+map", "empty"]))
        flat = [x for kv in m[1] for x in kv]
        if style == "pairs":
            v = ["l", flat]
        elif style == "map":
            v = ["l", [m]]
        elif style == "pairs+map":
            half = (len(m[1]) // 2)
            v = ["l", [x for kv in m[1][:half] for x in kv] + [["m", m[1][half:]]]]
        else:
            v = ["l", []]
        return site, p, v
    p = draw(patterns(depth=3))
    mode = draw(st.sampled_from(["conforming", "conforming", "any", "nil"]))
    if mode == "conforming":
        v = conforming_value(draw, p)
    elif mode == "nil":
        v = None
    else:
        v = draw(values())
    return site, p, v


# =========================================================================================
# (B) syntax-quote

SPECIALS = ["if", "def", "do", "let*", "fn*", "quote", "var", "recur", "try", "throw"]


class NsState:
    """model of the namespace a template is read in"""

    def __init__(self, name, interns, refers, aliases):
        self.name, self.interns, self.refers, self.aliases = name, interns, refers, aliases

    def resolve(self, ns, name):
        if ns is None and name in SPECIALS:
            return (None, name)
        if ns is not None:
            if ns in self.aliases:
                return (self.aliases[ns], name)
            return (ns, name)
        if name in self.interns:
            return (self.name, name)
        if name in self.refers:
            return (self.refers[name], name)
        return (self.name, name)


CORE_NAMES = ["map", "inc", "first", "str", "vector"]
# template AST: ["sym", ns, name] | ["gensym", base] | ["amp"] | ["dot", name] | ["const", value-ast] | ["unq", expr-src, value-ast]
#   | ["splice", expr-src, [value-asts]] | ["list", [..]] | ["vec", [..]] | ["map", [[k, v]..]] | ["set", [..]]


def render_template(t):
    k = t[0]
    if k == "sym":
        return (t[1] + "/" if t[1] else "") + t[2]
    if k == "gensym":
        return t[1] + "#"
    if k == "amp":
        return "&"
    if k == "dot":
        return "." + t[1]
    if k == "const":
        return render_value(t[1])
    if k == "unq":
        return "~" + t[1]
    if k == "nested":
        # an unquote whose expression is itself a template: its gensyms are its own
        return "~`" + render_template(t[1])
    if k == "splice":
        return "~@" + t[1]
    if k == "list":
        return "(" + " ".join(render_template(x) for x in t[1]) + ")"
    if k == "vec":
        return "[" + " ".join(render_template(x) for x in t[1]) + "]"
    if k == "map":
        return "{" + " ".join(render_template(a) + " " + render_template(b) for a, b in t[1]) + "}"
    if k == "set":
        return "#{" + " ".join(render_template(x) for x in t[1]) + "}"
    raise ValueError(t)


def expected(t, ns: NsState, cur=0, ctr=None):
    """expected data as a comparable tree; gensyms are ("G", base, scope): every template (the outer one and
    each template nested in an unquote) has its own scope"""
    if ctr is None:
        ctr = [0]               # last scope id handed out
    k = t[0]
    if k == "sym":
        r = ns.resolve(t[1], t[2])
        return ("sym", r[0], r[1])
    if k == "gensym":
        return ("G", t[1], cur)
    if k == "nested":
        ctr[0] += 1
        return expected(t[1], ns, ctr[0], ctr)
    if k == "amp":
        return ("sym", None, "&")
    if k == "dot":
        return ("sym", None, "." + t[1])
    if k == "const":
        return val_tree(t[1])
    if k == "unq":
        return val_tree(t[2])
    if k in ("list", "vec", "set"):
        out = []
        for x in t[1]:
            if x[0] == "splice":
                out.extend(val_tree(v) for v in x[2])
            else:
                out.append(expected(x, ns, cur, ctr))
        if k == "list" and not out and t[1]:
            # a list emptied by splices: (seq (concat nil)) is nil, as in Clojure; () is fine too
            return ("empty-list-or-nil",)
        return (k, tuple(out)) if k != "set" else (k, frozenset(out))
    if k == "map":
        return ("map", frozenset((expected(a, ns, cur, ctr), expected(b, ns, cur, ctr)) for a, b in t[1]))
    raise ValueError(t)


def erase_scope(tree):
    if isinstance(tree, tuple) and tree and tree[0] == "G":
        return ("G", tree[1])
    if isinstance(tree, tuple):
        return tuple(erase_scope(x) for x in tree)
    if isinstance(tree, frozenset):
        return frozenset(erase_scope(x) for x in tree)
    return tree


def scoped_names(real, want, out):
    """walk the ordered parts of both trees in parallel: (base, scope) -> real generated names"""
    if isinstance(want, tuple) and want and want[0] == "G" and isinstance(real, tuple) and real and real[0] == "G" and len(real) == 3:
        out.setdefault((want[1], want[2]), set()).add(real[2])
    elif isinstance(want, tuple) and isinstance(real, tuple) and want and real and want[0] == real[0] and want[0] in ("list", "vec") \
            and len(want[1]) == len(real[1]):
        for r, w_ in zip(real[1], want[1]):
            scoped_names(r, w_, out)


def has_nested(t):
    if t[0] == "nested":
        return True
    if t[0] in ("list", "vec", "set"):
        return any(has_nested(x) for x in t[1])
    if t[0] == "map":
        return any(has_nested(a) or has_nested(b) for a, b in t[1])
    return False


def val_tree(v):
    """an evaluated (unquoted / spliced / constant) value as the kind of tree real_tree builds"""
    if isinstance(v, list) and v and v[0] == "v":
        return ("vec", tuple(val_tree(x) for x in v[1]))
    if isinstance(v, list) and v and v[0] == "l":
        return ("list", tuple(val_tree(x) for x in v[1]))
    return ("val", canon(v))


def real_tree(v, gens):
    """the evaluated template as the same kind of tree; symbols that look like generated names are
    mapped to ("G", base) through `gens` (real name -> base)"""
    s = S()
    if isinstance(v, s["sym"].Symbol):
        m = re.fullmatch(r"(.+)_(\d+)", v.name)
        if v.ns is None and m and m.group(1) in ("g", "h", "tmp"):
            gens.setdefault(v.name, m.group(1))
            return ("G", m.group(1), v.name)
        return ("sym", v.ns, v.name)
    if isinstance(v, s["IPersistentVector"]):
        return ("vec", tuple(real_tree(x, gens) for x in v))
    if isinstance(v, s["IPersistentMap"]):
        return ("map", frozenset((real_tree(a, gens), real_tree(b, gens)) for a, b in v.items()))
    if isinstance(v, s["IPersistentSet"]):
        return ("set", frozenset(real_tree(x, gens) for x in v))
    if isinstance(v, (s["ISeq"], s["IPersistentList"])) or v is None and False:
        return ("list", tuple(real_tree(x, gens) for x in v))
    return ("val", canon(unbuild(v)))


def unbuild(v):
    s = S()
    if v is None or isinstance(v, (bool, int)):
        return v
    if isinstance(v, str):
        return ["s", v]
    if isinstance(v, s["kw"].Keyword):
        return ["kw", v.ns, v.name]
    if isinstance(v, s["IPersistentVector"]):
        return ["v", [unbuild(x) for x in v]]
    if isinstance(v, (s["ISeq"], s["IPersistentList"])):
        return ["l", [unbuild(x) for x in v]]
    return ["?", repr(v)]


def strip_g(tree):
    """drop the concrete generated name so trees can be compared; collect (base, realname) pairs"""
    if isinstance(tree, tuple) and tree and tree[0] == "G":
        return ("G", tree[1])
    if isinstance(tree, tuple):
        return tuple(strip_g(x) for x in tree)
    if isinstance(tree, frozenset):
        return frozenset(strip_g(x) for x in tree)
    return tree


def tree_match(real, want):
    if want == ("empty-list-or-nil",):
        return real in (("list", ()), ("val", "null"))
    if isinstance(want, tuple) and isinstance(real, tuple) and want and real and want[0] == real[0] and want[0] in ("list", "vec"):
        return len(want[1]) == len(real[1]) and all(tree_match(r, w) for r, w in zip(real[1], want[1]))
    if isinstance(want, tuple) and isinstance(real, tuple) and want and real and want[0] == real[0] == "map":
        if len(want[1]) != len(real[1]):
            return False
        return all(any(tree_match(rk, wk) and tree_match(rv, wv) for rk, rv in real[1]) for wk, wv in want[1])
    return real == want


def gen_names(tree, out):
    if isinstance(tree, tuple) and tree and tree[0] == "G" and len(tree) == 3:
        out.setdefault(tree[1], set()).add(tree[2])
    elif isinstance(tree, (tuple, frozenset)):
        for x in tree:
            gen_names(x, out)


@st.composite
def templates(draw, depth=3, top=True):
    leafs = st.one_of(
        st.sampled_from(CORE_NAMES).map(lambda n: ["sym", None, n]),
        st.sampled_from(["loc1", "loc2", "rx", "unk", "unk-2"]).map(lambda n: ["sym", None, n]),
        st.sampled_from([["sym", "al", "x"], ["sym", "al", "loc1"], ["sym", "zz", "x"], ["sym", "basilisp.core", "map"], ["sym", "python", "abs"],
                         ["sym", "other.ns", "rx"]]),
        st.sampled_from(SPECIALS).map(lambda n: ["sym", None, n]),
        st.sampled_from(["g", "h", "tmp"]).map(lambda b: ["gensym", b]),
        st.just(["amp"]), st.sampled_from(["m", "-field"]).map(lambda n: ["dot", n]),
        st.sampled_from([1, None, True, ["kw", None, "k"], ["kw", "q", "k"], ["s", "txt"]]).map(lambda v: ["const", v]),
        st.sampled_from([["unq", "(inc 1)", 2], ["unq", ":uk", ["kw", None, "uk"]], ["unq", "[1 (inc 1)]", ["v", [1, 2]]], ["unq", "nil", None],
                         ["unq", "\"s\"", ["s", "s"]]]),
    )
    if depth == 0:
        return draw(leafs)
    kind = draw(st.sampled_from(["leaf", "list", "list", "vec", "map", "set"]))
    if kind == "leaf":
        return draw(leafs)
    splice = st.sampled_from([["splice", "[1 2]", [1, 2]], ["splice", "(list :a)", [["kw", None, "a"]]], ["splice", "nil", []],
                              ["splice", "[]", []], ["splice", "[[3]]", [["v", [3]]]]])
    if kind in ("list", "vec"):
        nested = templates(depth=depth - 1, top=False).map(lambda x: ["nested", x])
        items = draw(st.lists(st.one_of(templates(depth=depth - 1, top=False), templates(depth=depth - 1, top=False), splice, nested), max_size=4))
        return [kind, items]
    if kind == "set":
        # members that cannot collide after resolution: constants and gensyms
        items = draw(st.lists(st.sampled_from([["const", 1], ["const", ["kw", None, "k"]], ["const", ["s", "txt"]], ["gensym", "g"], ["gensym", "h"],
                                               ["sym", None, "unk"], ["sym", None, "map"]]), max_size=3, unique_by=canon))
        return ["set", items]
    keys = draw(st.lists(st.sampled_from([["const", ["kw", None, "a"]], ["const", ["kw", None, "b"]], ["const", 1], ["sym", None, "loc1"], ["sym", None, "map"]]),
                         max_size=3, unique_by=canon))
    return ["map", [[k, draw(templates(depth=depth - 1, top=False))] for k in keys]]


def check_template(rec, t, nsconf):
    """nsconf = {"alias": bool, "refer": bool, "interns": [names]}"""
    s = S()
    rt = s["runtime"]
    name = boot.fresh_ns_name("vsq")
    ses = boot.Session(ns_name=name)
    other = rt.Namespace.get_or_create(s["sym"].symbol("other.ns"))
    rt.Var.intern(other, s["sym"].symbol("rx"), 1)
    rt.Var.intern(other, s["sym"].symbol("x"), 2)
    try:
        model = NsState(name, set(nsconf["interns"]), {n: "basilisp.core" for n in CORE_NAMES}, {})
        for n in nsconf["interns"]:
            ses.eval(f"(def {n} 0)")
        if nsconf["alias"]:
            ses.ns.add_alias(other, s["sym"].symbol("al"))
            model.aliases["al"] = "other.ns"
        if nsconf["refer"]:
            ses.ns.add_refer(s["sym"].symbol("rx"), other.find(s["sym"].symbol("rx")))
            model.refers["rx"] = "other.ns"
        src = "`" + render_template(t)
        case = {"kind": "template", "template": t, "ns": nsconf, "src": src}
        has_splice = "~@" in src
        rec.case(src + canon(nsconf), nontrivial=has_splice or src.count("(") + src.count("[") + src.count("{") >= 2, cls=["syntax-quote"] + (["splice"] if has_splice else []),
                 sample={"src": src, "ns": nsconf}, sub="syntax-quote")
        want = expected(t, model)
        trees = []
        for _ in range(2):
            try:
                v = ses.eval(src)
            except Exception as e:  # noqa
                raise Violation(f"template-raises:{type(e).__name__}", case, f"{src}: {type(e).__name__}: {str(e)[:200]}")
            trees.append(real_tree(v, {}))
        nested = has_nested(t)
        want_scoped, want = want, erase_scope(want)
        if not tree_match(strip_g(trees[0]), want):
            raise Violation("template-expands-differently", case, f"{src} in ns state {nsconf}: evaluated form {boot.core('pr-str')(v)}; expected {show_tree(want)}")
        names = [{}, {}]
        gen_names(trees[0], names[0])
        gen_names(trees[1], names[1])
        if nested:
            # scopes: the same x# inside one template is one symbol; the x# of a template nested in an unquote (or of
            # two sibling nested templates) are different symbols
            sc = [{}, {}]
            scoped_names(trees[0], want_scoped, sc[0])
            scoped_names(trees[1], want_scoped, sc[1])
            for key, real in sc[0].items():
                if len(real) != 1:
                    raise Violation("gensym-not-consistent-within-template", case, f"{src}: {key[0]}# (template {key[1]}) became {sorted(real)}")
                if real & sc[1].get(key, set()):
                    raise Violation("gensym-not-fresh-across-reads", case, f"{src}: {key[0]}# is {sorted(real)} in two separate reads")
            for (k1, r1), (k2, r2) in itertools.combinations(list(sc[0].items()), 2):
                if r1 & r2:
                    raise Violation("two-gensyms-share-a-name", case,
                                    f"{src}: {k1[0]}# of template {k1[1]} and {k2[0]}# of template {k2[1]} are both {sorted(r1 & r2)}: a template nested in an unquote captured the enclosing template's generated name")
            return
        for base, real in names[0].items():
            if len(real) != 1:
                raise Violation("gensym-not-consistent-within-template", case, f"{src}: {base}# became {sorted(real)}")
            if real & names[1].get(base, set()):
                raise Violation("gensym-not-fresh-across-reads", case, f"{src}: {base}# is {sorted(real)} in two separate reads")
        bases = list(names[0].items())
        for (b1, r1), (b2, r2) in itertools.combinations(bases, 2):
            if r1 & r2:
                raise Violation("two-gensyms-share-a-name", case, f"{src}: {b1}# and {b2}# are both {sorted(r1 & r2)}")
    finally:
        ses.close()


def show_tree(t):
    if isinstance(t, tuple) and t and t[0] == "sym":
        return (t[1] + "/" if t[1] else "") + t[2]
    if isinstance(t, tuple) and t and t[0] == "G":
        return t[1] + "#"
    if isinstance(t, tuple) and t and t[0] == "val":
        return t[1]
    if isinstance(t, tuple) and t and t[0] in ("list", "vec", "set", "map"):
        o, c = {"list": "()", "vec": "[]", "set": ("#{", "}"), "map": "{}"}[t[0]]
        return o + " ".join(show_tree(x) for x in t[1]) + c
    if isinstance(t, tuple):
        return " ".join(show_tree(x) for x in t)
    return str(t)


def shard(i, n, tier, seed, findings):
    c01.quiet_logging()
    rec = Recorder(ID)
    S()
    ex = 250 if tier == "quick" else 6000
    hyp.drive(lambda c: check_destructure(rec, *c), destructure_cases(), rec=rec, findings=findings, seed=seed * 1000 + i, max_examples=ex,
              to_case=lambda c: {"kind": "destructure", "site": c[0], "pattern": c[1], "value": c[2]})
    nsconfs = st.fixed_dictionaries({"alias": st.booleans(), "refer": st.booleans(),
                                     "interns": st.lists(st.sampled_from(["loc1", "loc2", "map"]), max_size=2, unique=True)})
    hyp.drive(lambda c: check_template(rec, c[0], c[1]), st.tuples(templates(), nsconfs), rec=rec, findings=findings, seed=seed * 1000 + i + 7,
              max_examples=max(60, ex // 3), to_case=lambda c: {"kind": "template", "template": c[0], "ns": c[1]})
    return rec


def replay(case):
    c01.quiet_logging()
    rec = Recorder(ID)
    S()
    if case["kind"] == "destructure":
        check_destructure(rec, case["site"], case["pattern"], case["value"])
    else:
        check_template(rec, case["template"], case["ns"])
