"""C02 — sub-expressions are evaluated left to right, exactly once.

(A) E1 programs with effect markers `(t! k e)` on arbitrary sub-expressions: the effect log of the
    compiled run must equal the reference interpreter's log exactly (order and multiplicity), on
    normal and exceptional exits, in every syntactic context.
(B) systematic product parent x argument position x sibling kind, including interop calls, recur,
    def/throw and every auto-inlined or custom-inlined core function of a table: the log must be the
    source order of the markers on the taken path, and the value must equal the non-inlined call."""
from __future__ import annotations

import itertools
import logging

from hypothesis import strategies as st

from vlib import boot, hyp, progfuzz as pf
from vlib.harness import Recorder, Violation, canon
from props import c01

ID = "C02"
MANIFEST = {
    "technique": "Hypothesis program generator with effect markers on arbitrary sub-expressions + systematic product (parent form x argument position x sibling kind x inlined core fn); effect-trace equality against an independent reference interpreter, differential inlined vs non-inlined call",
    "text": "random and systematic search over evaluation order: generated programs carry effect markers on sub-expressions and the exact sequence of marker effects (order and multiplicity, untaken branches silent, finally after body/handler) of the compiled program is compared with the reference interpreter's trace in 9 syntactic contexts; a complete product of 14 parent forms x 3 positions x 9 sibling kinds and a table of ~60 inlined core functions x sibling kinds is enumerated. Absence of violations holds only for the explored programs.",
    "note": "map and set literals are excluded (unordered by construction; not claimed by the statement); the marker is a Python function interned as a Var so it is never inlined",
    "engine": "E1 program generator + reference interpreter",
}
LEVEL = "exploration"
NSHARDS = 16
RULE = ("(A) Hypothesis marker programs (depth<=5) in 9 contexts; (B) full product parent x position x sibling kind and "
        "inlined-core-fn table x sibling kinds. Non-trivial = >=2 markers and (a compound form with an effectful sibling "
        "to its left, or an effectful argument of an inlined function, or a finally); distinct by source text.")
ASSUMPTIONS = [
    "evaluation order inside map and set literals is not checked",
    "the reference interpreter's trace is the oracle for (A); for (B) the expected trace is the source order of markers on the taken path by construction",
]


def count_markers(n):
    if not isinstance(n, list):
        return 0
    return (1 if n and n[0] == "t" else 0) + sum(count_markers(x) for x in n)


def has_map_or_set_with_marker(n):
    if not isinstance(n, list):
        return False
    if n and n[0] in ("map",) and count_markers(n) > 0:
        return True
    return any(has_map_or_set_with_marker(x) for x in n)


def compound_after_effect(n):
    """a call/vector/list/recur whose argument j is a compound form while some argument i<j carries a marker"""
    if not isinstance(n, list):
        return False
    if n and n[0] in ("call", "p", "vec", "lst", "recur"):
        args = n[2] if n[0] in ("call", "p") else n[1]
        seen = n[0] == "call" and count_markers(n[1]) > 0
        for a in args:
            if seen and isinstance(a, list) and a and (a[0] in ("if", "let", "do", "try", "loop", "letfn") or
                                                         (a[0] == "t" and a[2][0] in ("if", "let", "do", "try", "loop"))):
                return True
            if count_markers(a) > 0:
                seen = True
    return any(compound_after_effect(x) for x in n)


def has_finally(n):
    if not isinstance(n, list):
        return False
    if n and n[0] == "try" and n[3] is not None:
        return True
    return any(has_finally(x) for x in n)


def strip_map_markers(n):
    """maps are unordered: remove markers inside map literal values (kept elsewhere)"""
    if not isinstance(n, list):
        return n
    if n and n[0] == "map":
        return ["map", [[k, strip_all(v)] for k, v in n[1]]]
    return [strip_map_markers(x) for x in n]


def strip_all(n):
    if not isinstance(n, list):
        return n
    if n and n[0] == "t":
        return strip_all(n[2])
    return [strip_all(x) for x in n]


def check_marker_program(rec, prog, cfg_index):
    prog = {"defs": [[n, strip_map_markers(e)] for n, e in prog["defs"]], "main": strip_map_markers(prog["main"])}
    src = c01.source(prog)
    whole = [prog["defs"], prog["main"]]
    nm = count_markers(whole)
    nontriv = nm >= 2 and (compound_after_effect(whole) or has_finally(whole))
    cls = []
    if compound_after_effect(whole):
        cls.append("compound-after-effectful-sibling")
    if has_finally(whole):
        cls.append("finally")
    if nm == 0:
        cls.append("no-marker")
    rec.case(src, nontrivial=nontriv, cls=cls or ["markers-only-simple"], sample=src, sub="marker-programs")
    for ci, ctx in enumerate(pf.CONTEXTS):
        wrapped = {"defs": prog["defs"], "main": pf.in_context(prog["main"], ctx)}
        try:
            model_out, model_log = pf.run_model(wrapped)
        except pf.ModelAbort:
            rec.inconclusive += 1
            return
        cfg = (cfg_index + ci) % 8
        real_out, real_log = pf.run_real(wrapped, pf.ALL_CONFIGS[cfg])
        rec.count("real_runs")
        if real_log != model_log:
            case = {"kind": "prog", "prog": wrapped, "config": cfg, "context": ctx, "src": c01.source(wrapped)}
            fid = None
            if real_out != model_out:
                fid = c01.attribute(wrapped, real_out, model_out)
            else:
                fid = attribute_log(wrapped, real_log, model_log)
            kind = "effect-twice" if any(real_log.count(k) > model_log.count(k) for k in set(real_log)) else \
                "effect-missing" if sorted(real_log) != sorted(model_log) else "effect-order"
            raise Violation(kind, case, f"reference trace {model_log} ({model_out}); compiled trace {real_log} ({real_out})",
                            finding=fid)
        if real_out != model_out:
            case = {"kind": "prog", "prog": wrapped, "config": cfg, "context": ctx, "src": c01.source(wrapped)}
            raise Violation("value-differs", case, f"reference: {model_out}  compiled: {real_out}",
                            finding=c01.attribute(wrapped, real_out, model_out))


def attribute_log(prog, real_log, model_log):
    """the C01 defect models (F-01a/b/c) also predict traces: attribute only on an exact match"""
    whole = [prog["defs"], prog["main"]]
    loopfn, catchfn, collide = c01.has_fn_inside_loop(whole), c01.has_fn_inside_catch(whole), c01.colliding_params(whole)
    for cells, munge, fid in ((True, False, None), (False, True, "F-01b"), (True, True, "F-01b")):
        if (cells and not (loopfn or catchfn)) or (munge and not collide):
            continue
        try:
            _, dl = pf.run_model(prog, pycells=cells, pymunge=munge)
        except pf.ModelAbort:
            continue
        if dl == real_log and dl != model_log:
            return fid or ("F-01a" if loopfn else "F-01c")
    return None


# ---- (B) systematic product ------------------------------------------------------------------

class Src:
    """source text builder with fresh marker ids; expected trace = ids in creation order of the
    markers that lie on the taken path"""

    def __init__(self):
        self.k = itertools.count(1)
        self.trace = []

    def m(self, v):
        k = next(self.k)
        self.trace.append(k)
        return f"(t! {k} {v})"

    def dead(self, v):
        """marker on an untaken branch: must never fire"""
        k = next(self.k)
        return f"(t! {k} {v})"


SIBLINGS = ["plain", "if", "let", "do", "try", "loop", "fncall", "const", "when-not", "throwcatch"]


def sibling(s, kind, v):
    """an expression of the given kind evaluating to v, with markers inside"""
    if kind == "plain":
        return s.m(v)
    if kind == "const":
        return v
    if kind == "if":
        return f"(if {s.m('true')} {s.m(v)} {s.dead(0)})"
    if kind == "when-not":
        return f"(if {s.m('nil')} {s.dead(0)} {s.m(v)})"
    if kind == "let":
        return f"(let* [lx {s.m(v)} ly {s.m(0)}] lx)"
    if kind == "do":
        return f"(do {s.m(0)} {s.m(v)})"
    if kind == "try":
        a = s.m(v)
        f = s.m(0)
        return f"(try {a} (finally {f}))"
    if kind == "throwcatch":
        a = s.m(0)
        h = s.m(v)
        f = s.m(0)
        return f'(try (do {a} (throw (python/KeyError "k")) {s.dead(0)}) (catch python/KeyError _e {h}) (finally {f}))'
    if kind == "loop":
        i = s.m(0)
        r = s.m(v)
        return f"(loop* [li {i}] (if (p< li 1) (recur (pinc li)) {r}))"
    if kind == "fncall":
        return f"((fn* [] {s.m(v)}))"
    raise ValueError(kind)


PARENTS = ["invoke", "invoke-fnpos", "vector", "list", "prim", "interop", "interop-target", "let-inits", "loop-inits",
           "loop-recur", "fn-recur", "do", "def-init", "throw-arg", "try-body", "new", "apply-kw"]


def build_parent(parent, kinds):
    """-> (source, expected trace, expected value shape or None)"""
    s = Src()
    v = ["10", "20", "30"]
    if parent == "invoke":
        src = f"((fn* [a b c] (pvec a b c)) {sibling(s, kinds[0], v[0])} {sibling(s, kinds[1], v[1])} {sibling(s, kinds[2], v[2])})"
    elif parent == "invoke-fnpos":
        f = sibling(s, kinds[0], "pvec")
        src = f"({f} {sibling(s, kinds[1], v[1])} {sibling(s, kinds[2], v[2])})"
    elif parent == "vector":
        src = f"[{sibling(s, kinds[0], v[0])} {sibling(s, kinds[1], v[1])} {sibling(s, kinds[2], v[2])}]"
    elif parent == "list":
        src = f"(basilisp.core/list {sibling(s, kinds[0], v[0])} {sibling(s, kinds[1], v[1])} {sibling(s, kinds[2], v[2])})"
    elif parent == "prim":
        src = f"(pvec {sibling(s, kinds[0], v[0])} {sibling(s, kinds[1], v[1])} {sibling(s, kinds[2], v[2])})"
    elif parent == "interop":
        src = f"(.join3 hobj {sibling(s, kinds[0], v[0])} {sibling(s, kinds[1], v[1])} {sibling(s, kinds[2], v[2])})"
    elif parent == "interop-target":
        src = f"(.join3 {sibling(s, kinds[0], 'hobj')} {sibling(s, kinds[1], v[1])} {sibling(s, kinds[2], v[2])} 0)"
    elif parent == "new":
        src = f"(.-args (python/ValueError {sibling(s, kinds[0], v[0])} {sibling(s, kinds[1], v[1])} {sibling(s, kinds[2], v[2])}))"
    elif parent == "let-inits":
        src = f"(let* [a {sibling(s, kinds[0], v[0])} b {sibling(s, kinds[1], v[1])} c {sibling(s, kinds[2], v[2])}] (pvec a b c))"
    elif parent == "loop-inits":
        src = f"(loop* [a {sibling(s, kinds[0], v[0])} b {sibling(s, kinds[1], v[1])} c {sibling(s, kinds[2], v[2])}] (pvec a b c))"
    elif parent == "loop-recur":
        a0 = s.m(0)
        r = [sibling(s, kinds[0], "1"), sibling(s, kinds[1], v[1]), sibling(s, kinds[2], v[2])]
        src = f"(loop* [a {a0} b 0 c 0] (if (p< a 1) (recur {r[0]} {r[1]} {r[2]}) (pvec a b c)))"
    elif parent == "fn-recur":
        r = [sibling(s, kinds[0], "1"), sibling(s, kinds[1], v[1]), sibling(s, kinds[2], v[2])]
        src = f"((fn* [a b c] (if (p< a 1) (recur {r[0]} {r[1]} {r[2]}) (pvec a b c))) 0 0 0)"
    elif parent == "do":
        src = f"(do {sibling(s, kinds[0], v[0])} {sibling(s, kinds[1], v[1])} {sibling(s, kinds[2], v[2])})"
    elif parent == "def-init":
        src = f"(do (def dv (pvec {sibling(s, kinds[0], v[0])} {sibling(s, kinds[1], v[1])} {sibling(s, kinds[2], v[2])})) dv)"
    elif parent == "throw-arg":
        src = (f"(try (throw (python/ValueError {sibling(s, kinds[0], v[0])} {sibling(s, kinds[1], v[1])})) "
               f"(catch python/ValueError e (pvec (.-args e) {sibling(s, kinds[2], v[2])})))")
    elif parent == "try-body":
        b = [sibling(s, kinds[0], v[0]), sibling(s, kinds[1], v[1])]
        f = sibling(s, kinds[2], v[2])
        src = f"(try {b[0]} {b[1]} (finally {f}))"
    elif parent == "apply-kw":
        src = f"(:k {sibling(s, kinds[0], '{:k 1}')} {sibling(s, kinds[1], v[1])})" if kinds[2] == "const" else None
    else:
        raise ValueError(parent)
    return src, s.trace


# inlined core fns: name -> list of argument value sources (valid for the fn)
INLINE_TABLE = {
    "nil?": ["1"], "false?": ["false"], "true?": ["true"], "some?": ["1"], "any?": ["1"], "zero?": ["0"],
    "inc": ["1"], "dec": ["1"], "inc'": ["1"], "dec'": ["1"], "abs": ["-1"], "hash": ["1"], "identical?": ["1", "1"],
    "compare": ["1", "2"], "instance?": ["python/int", "1"], "boolean?": ["true"], "float?": ["1.0"], "string?": ['"s"'],
    "symbol?": ["'s"], "keyword?": [":k"], "list?": ["'(1)"], "map?": ["{}"], "set?": ["#{}"], "vector?": ["[]"],
    "seq?": ["'(1)"], "seq": ["[1]"], "vec": ["'(1)"], "set": ["[1]"], "first": ["[1 2]"], "rest": ["[1 2]"],
    "next": ["[1 2]"], "second": ["[1 2]"], "ffirst": ["[[1]]"], "identity": ["1"], "count": ["[1]"],
    "nthnext": ["[1 2 3]", "1"], "nthrest": ["[1 2 3]", "1"], "nfirst": ["[[1 2]]"], "fnext": ["[1 2]"], "nnext": ["[1 2 3]"],
    "namespace": [":a/b"], "empty?": ["[]"], "coll?": ["[]"], "counted?": ["[]"], "associative?": ["{}"],
    "ifn?": ["inc"], "indexed?": ["[]"], "map-entry?": ["1"], "sequential?": ["[]"], "seqable?": ["[]"],
    "reversible?": ["[]"], "class": ["1"], "type": ["1"], "int": ["1.5"], "long": ["1.5"], "double": ["1"], "float": ["1"],
    "bit-not": ["1"], "bit-shift-left": ["1", "2"], "bit-shift-right": ["8", "1"], "bit-set": ["1", "2"],
    "bit-clear": ["7", "1"], "bit-flip": ["1", "1"], "bit-test": ["1", "0"], "peek": ["[1 2]"], "pop": ["[1 2]"],
    "rseq": ["[1 2]"], "contains?": ["{:a 1}", ":a"], "key": ["(first {:a 1})"], "val": ["(first {:a 1})"],
    "keys": ["{:a 1}"], "vals": ["{:a 1}"], "reduced": ["1"], "reduced?": ["1"], "volatile!": ["1"], "volatile?": ["1"],
    "numerator": ["1/2"], "denominator": ["1/2"], "repr": ["1"], "var?": ["1"], "record?": ["1"], "inst?": ["1"],
    "queue?": ["1"], "py-dict?": ["1"], "py-list?": ["1"], "delay?": ["1"], "future?": ["1"], "promise?": ["1"],
    "special-symbol?": ["'if"], "class?": ["python/int"], "complex?": ["1"], "byte-string?": ["1"], "bytes?": ["1"],
    "ex-info": ['"m"', "{}"], "compare-and-set!": ["(atom 1)", "1", "2"], "vreset!": ["(volatile! 1)", "2"],
    "deliver": ["(promise)", "1"], "realized?": ["(delay 1)"],
    "find-ns": ["'basilisp.core"], "resolve": ["'inc"], "find-var": ["'basilisp.core/inc"],
}


def inline_case(fname, kinds):
    s = Src()
    vals = INLINE_TABLE[fname]
    args = [sibling(s, kinds[i % len(kinds)], v) for i, v in enumerate(vals)]
    call = f"({fname} {' '.join(args)})"
    return call, s.trace


_H = {}


def harness_ns():
    if _H:
        return _H
    R = pf.real()

    class HObj:
        def join3(self, a, b, c):
            return R.vec.vector([a, b, c])

    R.runtime.Var.intern(R.ns, R.sym.symbol("hobj"), HObj())
    _H["ok"] = True
    return _H


def run_src(src, config):
    R = pf.real()
    harness_ns()
    ses = boot.Session(opts=dict(config))
    try:
        ses.ns.refer_all(R.ns)
        R.log.clear()
        try:
            v = ses.eval(src)
            out = ["ok", R.shape(v)]
        except BaseException as e:  # noqa
            if isinstance(e, (KeyboardInterrupt, SystemExit, MemoryError)):
                raise
            out = ["raise", pf.classify_real_exception(e, R)]
        return out, list(R.log)
    finally:
        ses.close()


def check_src(rec, src, expected, cls, cfgs, value_ref_src=None, nontrivial=True):
    case = {"kind": "src", "src": src, "expected": expected, "ref": value_ref_src}
    rec.case(src, nontrivial=nontrivial and len(expected) >= 2, cls=cls, sample=src, sub="systematic")
    ref_out = None
    if value_ref_src is not None:
        ref_out, _ = run_src(value_ref_src, pf.ALL_CONFIGS[0])
    for c in cfgs:
        out, log = run_src(src, pf.ALL_CONFIGS[c])
        rec.count("real_runs")
        case["config"] = c
        if out[0] == "raise" and out[1].startswith(("COMPILE", "PYSYNTAX", "READ")):
            raise Violation("compile-error:" + out[1][:40], case, f"{out}")
        if log != expected:
            kind = "effect-twice" if any(log.count(k) > expected.count(k) for k in set(log)) else \
                "effect-missing" if sorted(log) != sorted(expected) else "effect-order"
            raise Violation(f"{kind}:{cls.split('/')[0]}", case, f"expected trace {expected}, compiled trace {log} (value {out})")
        if ref_out is not None and out != ref_out:
            raise Violation("inlined-value-differs", case, f"inlined {out} vs non-inlined {ref_out}")


def systematic_work(tier):
    work = []
    pair_kinds = SIBLINGS if tier == "thorough" else ["plain", "if", "let", "do", "try", "loop", "const"]
    for parent in PARENTS:
        for k0 in pair_kinds:
            for k1 in pair_kinds:
                for k2 in (pair_kinds if tier == "thorough" else ["plain", "if", "const"]):
                    if parent == "apply-kw" and k2 != "const":
                        continue
                    work.append(("parent", parent, (k0, k1, k2)))
    for f in sorted(INLINE_TABLE):
        n = len(INLINE_TABLE[f])
        ks = SIBLINGS if (n == 1 or tier == "thorough") else ["plain", "if", "let", "try", "const"]
        for kinds in itertools.product(ks, repeat=min(n, 2)):
            if all(k == "const" for k in kinds):
                continue
            work.append(("inline", f, kinds))
    return work


def run_work_item(rec, w, idx):
    if w[0] == "parent":
        src, trace = build_parent(w[1], w[2])
        if src is None:
            return
        check_src(rec, src, trace, f"{w[1]}/{'-'.join(w[2])}", cfgs=[idx % 8, (idx + 3) % 8],
                  nontrivial=any(k not in ("plain", "const") for k in w[2][1:]))
    else:
        call, trace = inline_case(w[1], w[2])
        # the same call marked ^:no-inline is the value reference
        check_src(rec, call, trace, f"inline/{w[1]}", cfgs=[idx % 2 * 4, 1 + idx % 7], value_ref_src="^:no-inline " + call)


def shard(i, n, tier, seed, findings):
    c01.quiet_logging()
    rec = Recorder(ID)
    pf.real()
    harness_ns()
    work = systematic_work(tier)
    for idx, w in enumerate(work):
        if idx % n != i:
            continue
        try:
            run_work_item(rec, w, idx)
        except Violation as v:
            rec.violation(v.sig, v.case, v.detail, finding=v.finding, findings=findings)
    rec.exhaustive["systematic-product"] = True

    def body(val):
        prog, cfg = val
        check_marker_program(rec, prog, cfg)

    n_ex = 60 if tier == "quick" else 2500
    for avoid, share in ((frozenset(), 0.5), (frozenset({"closure-loop", "catch-closure"}), 0.5)):
        hyp.drive(body, st.tuples(pf.program_strategy(markers=True, avoid=avoid), st.integers(0, 7)),
                  rec=rec, findings=findings, seed=seed * 1000 + i + (500 if avoid else 0),
                  max_examples=max(5, int(n_ex * share)),
                  to_case=lambda v: {"kind": "prog", "prog": v[0], "config": v[1], "src": c01.source(v[0])})
    return rec


def replay(case):
    c01.quiet_logging()
    rec = Recorder(ID)
    pf.real()
    harness_ns()
    if case["kind"] == "src":
        check_src(rec, case["src"], case["expected"], "replay", cfgs=[case.get("config", 0)], value_ref_src=case.get("ref"))
        return
    prog = case["prog"]
    if "context" in case:
        model_out, model_log = pf.run_model(prog)
        real_out, real_log = pf.run_real(prog, pf.ALL_CONFIGS[case.get("config", 0)])
        if real_log != model_log or real_out != model_out:
            fid = c01.attribute(prog, real_out, model_out) if real_out != model_out else attribute_log(prog, real_log, model_log)
            raise Violation("replay-differs", case, f"reference trace {model_log} ({model_out}); compiled trace {real_log} ({real_out})", finding=fid)
        return
    check_marker_program(rec, prog, case.get("config", 0))
