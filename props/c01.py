"""C01 — compiled programs compute the values their source denotes.

Generated programs of the special-form fragment (vlib/progfuzz.py) are compiled and run in
fresh namespaces and compared with an independent reference interpreter: same value (by
structure and type) or same exception class; the same program wrapped in each syntactic context
must agree with the reference of the wrapped program; all 8 code-generation configurations."""
from __future__ import annotations

import logging

from hypothesis import strategies as st

from vlib import boot, hyp, progfuzz as pf
from vlib.harness import Recorder, Violation, canon

ID = "C01"
MANIFEST = {
    "technique": "Hypothesis scope-tracking program generator + bounded exhaustive enumeration of small programs; differential against an independent reference interpreter; metamorphic syntactic contexts; 8 code-generation configurations",
    "text": "random and bounded-exhaustive differential testing of the compiler: every generated program (special forms nested to depth 5, closures created in loops, shadowing through Python-unsafe and munge-colliding names, try/catch/finally, def, multi-arity fns, fn and loop recur) is compiled under all 8 combinations of use-var-indirection x inline-functions x generate-auto-inlines and in 9 syntactic contexts, and its value / exception class is compared with a reference interpreter that shares no code with the compiler. Absence of violations holds only for the generated programs.",
    "note": "trusts the ~300-line reference interpreter and the Python primitives interned as Vars; fragment only (no deftype/reify/async/yield/interop); primitives are a closed table of total functions",
    "engine": "E1 program generator + reference interpreter",
}
LEVEL = "exploration"
NSHARDS = 16
RULE = ("Hypothesis programs over the special-form fragment (depth<=5) + exhaustive small programs; each run under 8 "
        "configs (top context) and in 8 further contexts. Non-trivial = >=2 different special forms nested to depth>=2 "
        "with at least one binding form (let/loop/fn/letfn/catch); distinct by rendered source text.")
ASSUMPTIONS = [
    "the reference interpreter is the oracle; primitives are total Python functions interned as Vars",
    "programs whose reference evaluation exceeds the step budget are dropped (counted as inconclusive)",
    "results that are functions are compared as opaque <fn> tokens",
]

BINDING = {"let", "loop", "fn", "letfn", "try"}


def quiet_logging():
    logging.getLogger("basilisp").setLevel(logging.CRITICAL)
    logging.getLogger("basilisp.lang.compiler.analyzer").setLevel(logging.CRITICAL)
    logging.getLogger("basilisp.lang.compiler.generator").setLevel(logging.CRITICAL)


def source(prog):
    return " ".join(f"(def {n} {pf.render(e)})" for n, e in prog["defs"]) + " " + pf.render(prog["main"])


def triggers(prog):
    """known-finding triggers: predicates over the generated program only"""
    txt = canon(prog)
    return {
        "closure-in-loop": '["loop"' in txt and '["fn"' in txt,
        "catch-closure": '["try"' in txt and '["fn"' in txt,
    }


def has_fn_inside_loop(n, inloop=False):
    if not isinstance(n, list):
        return False
    if n and n[0] == "fn" and inloop:
        return True
    if n and n[0] == "loop":
        inloop = True
    return any(has_fn_inside_loop(x, inloop) for x in n)


def has_fn_inside_catch(n, incatch=False):
    if not isinstance(n, list):
        return False
    if n and n[0] == "fn" and incatch:
        return True
    if n and n[0] == "try":
        return (any(has_fn_inside_catch(x, incatch) for x in n[1]) or
                any(has_fn_inside_catch(b, True) for _, _, body in n[2] for b in body) or
                (n[3] is not None and any(has_fn_inside_catch(x, incatch) for x in n[3])))
    return any(has_fn_inside_catch(x, incatch) for x in n)


def duplicate_munged_params(n):
    """trigger of F-01b (compile error form): one arity whose parameter names munge alike"""
    if not isinstance(n, list):
        return False
    if n and n[0] == "fn":
        for params, rest, body in n[2]:
            names = [pf.pymunge(p) for p in params] + ([pf.pymunge(rest)] if rest else [])
            if len(set(names)) != len(names):
                return True
    if n and n[0] == "letfn":
        for nm, ps, body in n[1]:
            names = [pf.pymunge(p) for p in ps]
            if len(set(names)) != len(names):
                return True
    return any(duplicate_munged_params(x) for x in n)


def colliding_params(n, outer=()):
    """trigger of F-01b (wrong value form): a fn parameter whose munged name equals that of a
    *different* parameter of an enclosing fn"""
    if not isinstance(n, list):
        return False
    if n and n[0] == "fn":
        for params, rest, body in n[2]:
            mine = list(params) + ([rest] if rest else [])
            for p in mine:
                for q in outer:
                    if p != q and pf.pymunge(p) == pf.pymunge(q):
                        return True
            if any(colliding_params(b, tuple(outer) + tuple(mine)) for b in body):
                return True
        return False
    if n and n[0] == "letfn":
        for nm, ps, body in n[1]:
            for p in ps:
                for q in outer:
                    if p != q and pf.pymunge(p) == pf.pymunge(q):
                        return True
            if any(colliding_params(b, tuple(outer) + tuple(ps)) for b in body):
                return True
        return any(colliding_params(b, outer) for b in n[2])
    return any(colliding_params(x, outer) for x in n)


def attribute(prog, real_out, model_out):
    """A deviation is attributed to a known finding only if (a) the program satisfies the finding's
    trigger (a predicate over the generated program) and (b) the real outcome equals what that
    finding's *defect model* predicts: Python-variable semantics for loop/let/catch locals (F-01a,
    F-01c), munged-not-unique parameter names (F-01b)."""
    whole = [prog["defs"], prog["main"]]
    if duplicate_munged_params(whole) and real_out[0] == "raise" and real_out[1].startswith("PYSYNTAX:duplicate argument"):
        return "F-01b"
    loopfn = has_fn_inside_loop(whole)
    catchfn = has_fn_inside_catch(whole)
    collide = colliding_params(whole)
    if not (loopfn or catchfn or collide):
        return None
    for cells, munge, fid in ((True, False, None), (False, True, "F-01b"), (True, True, "F-01b")):
        if (cells and not (loopfn or catchfn)) or (munge and not collide):
            continue
        try:
            defect_out, _ = pf.run_model(prog, pycells=cells, pymunge=munge)
        except pf.ModelAbort:
            continue
        if defect_out == real_out and defect_out != model_out:
            if fid:
                return fid
            if loopfn and not catchfn:
                return "F-01a"
            if catchfn and not loopfn:
                return "F-01c"
            return "F-01c" if real_out == ["raise", "NameError"] else "F-01a"
    return None


def check_program(rec, prog, cfg_index=0, contexts=pf.CONTEXTS, all_configs=True, cls=None):
    src = source(prog)
    kinds = pf.node_kinds(["do", [e for _, e in prog["defs"]] + [prog["main"]]])
    nontriv = len(kinds["kinds"] - {"call", "q"}) >= 2 and kinds["depth"] >= 2 and bool(kinds["kinds"] & BINDING)
    classes = [cls] if cls else sorted(k for k in kinds["kinds"] if k in ("loop", "try", "letfn", "def", "fn", "recur", "throw"))
    rec.case(src, nontrivial=nontriv, cls=classes or ["plain"], sample=src)
    for ci, ctx in enumerate(contexts):
        wrapped = {"defs": prog["defs"], "main": pf.in_context(prog["main"], ctx)}
        try:
            model_out, _ = pf.run_model(wrapped)
        except pf.ModelAbort:
            rec.inconclusive += 1
            return
        if ctx == "top" and all_configs:
            cfgs = list(range(8))
        else:
            cfgs = [(cfg_index + ci) % 8]
        for c in cfgs:
            real_out, _ = pf.run_real(wrapped, pf.ALL_CONFIGS[c])
            rec.count("real_runs")
            if real_out != model_out:
                case = {"kind": "prog", "prog": wrapped, "config": c, "context": ctx, "src": source(wrapped)}
                kind = ("compile-error:" + real_out[1] if real_out[0] == "raise" and real_out[1].startswith(("COMPILE", "PYSYNTAX", "READ"))
                        else "exception-differs" if "raise" in (real_out[0], model_out[0]) else "value-differs")
                raise Violation(kind, case, f"reference: {model_out}  compiled: {real_out}",
                                finding=attribute(wrapped, real_out, model_out))


# ---- bounded exhaustive enumeration (SmallCheck style) -------------------------------------

def small_programs(size):
    """all expressions with exactly `size` constructor nodes over a tiny alphabet; scope = list of names"""
    consts = [["c", None], ["c", 1]]
    names = ["a-b", "a_b"]

    def exprs(n, scope):
        if n == 1:
            for c in consts:
                yield c
            for nm in scope:
                yield ["l", nm]
            return
        # unary wrappers
        for e in exprs(n - 1, scope):
            yield ["p", "pnot", [e]]
            yield ["do", [e]]
            yield ["call", ["fn", None, [[[], None, [e]]]], []]
            yield ["try", [e], [], [["c", 1]]]
        for nm in names:
            for k in range(1, n - 1):
                for init in exprs(k, scope):
                    for body in exprs(n - 1 - k, scope + [nm] if nm not in scope else scope):
                        yield ["let", [[nm, init]], [body]]
                        yield ["call", ["fn", None, [[[nm], None, [body]]]], [init]]
        for k in range(1, n - 1):
            for a in exprs(k, scope):
                for b in exprs(n - 1 - k, scope):
                    yield ["p", "pvec", [a, b]]
                    yield ["if", a, b, None]
                    yield ["do", [a, b]]
        for k1 in range(1, n - 2):
            for k2 in range(1, n - 1 - k1):
                for a in exprs(k1, scope):
                    for b in exprs(k2, scope):
                        for c in exprs(n - 1 - k1 - k2, scope):
                            yield ["if", a, b, c]
    return exprs(size, [])


def shard(i, n, tier, seed, findings):
    quiet_logging()
    rec = Recorder(ID)
    pf.real()
    # 1. exhaustive small programs
    max_size = 5 if tier == "quick" else 6
    idx = 0
    for size in range(1, max_size + 1):
        for e in small_programs(size):
            idx += 1
            if idx % n != i:
                continue
            prog = {"defs": [], "main": e}
            try:
                check_program(rec, prog, cfg_index=idx, contexts=["top", pf.CONTEXTS[1 + idx % 8]],
                              all_configs=(idx % 16 == i), cls=f"exhaustive/size{size}")
            except Violation as v:
                rec.violation(v.sig, v.case, v.detail, finding=v.finding, findings=findings)
    rec.exhaustive[f"small-programs<=size{max_size}"] = True

    # 2. random programs; a fraction generated in finding-avoiding mode so the search continues
    #    behind the known findings
    def body_for(avoid):
        def body(val):
            prog, cfg = val
            check_program(rec, prog, cfg_index=cfg, cls=None)
            if avoid:
                rec.count("generated_in_finding_avoiding_mode")
        return body

    n_ex = 70 if tier == "quick" else 2500
    for avoid, share in ((frozenset(), 0.6), (frozenset({"closure-loop", "catch-closure"}), 0.4)):
        hyp.drive(body_for(avoid), st.tuples(pf.program_strategy(markers=False, avoid=avoid), st.integers(0, 7)),
                  rec=rec, findings=findings, seed=seed * 1000 + i + (500 if avoid else 0),
                  max_examples=max(5, int(n_ex * share)),
                  to_case=lambda v: {"kind": "prog", "prog": v[0], "config": v[1], "src": source(v[0])})
    return rec


def replay(case):
    quiet_logging()
    rec = Recorder(ID)
    prog = case["prog"]
    if "context" in case:
        # the stored program is already wrapped
        model_out, _ = pf.run_model(prog)
        real_out, _ = pf.run_real(prog, pf.ALL_CONFIGS[case.get("config", 0)])
        if real_out != model_out:
            raise Violation("replay-differs", case, f"reference: {model_out}  compiled: {real_out}",
                            finding=attribute(prog, real_out, model_out))
        return
    check_program(rec, prog, cfg_index=case.get("config", 0))
