"""C05 — equality is an equivalence that hashing and lookup respect.

Abstract values (kind + content) are rendered into several concrete representations; the
model equality is structural on the abstract value (the statement's definition), so the oracle
knows which pairs MUST be = and which MUST NOT, independently of basilisp's __eq__ code."""
from __future__ import annotations

import itertools
import math
from decimal import Decimal
from fractions import Fraction

from hypothesis import strategies as st

from vlib import boot, hyp
from vlib.harness import Recorder, Violation, canon

ID = "C05"
MANIFEST = {
    "technique": "exhaustive pairs+triples over a labelled universe of equal-but-differently-represented values + Hypothesis abstract values rendered into two random representations / one-leaf mutations; structural model equality, symmetry/transitivity/reflexivity, hash and map/set lookup agreement",
    "text": "bounded-exhaustive and random search: all ordered pairs (and all triples via the pair matrix) of a ~90 element universe, plus random nested abstract values rendered twice; each pair is checked against a structural reference equality, for symmetry, hash equality (core hash and Python hash) and for mutual findability as map key / set member. Shows absence of violations only on the explored values.",
    "note": "numeric cross-type equality follows the documented rule (exact values compared); Python mutable #py collections are included for the = laws only (they are unhashable by design)",
    "engine": "E2 data universes",
}
LEVEL = "exploration"
NSHARDS = 16
RULE = ("ordered pairs of the labelled universe (exhaustive) + triples (exhaustive, from the pair matrix) + "
        "Hypothesis nested abstract values rendered in two random representations or with one leaf "
        "changed. Non-trivial = the two (three) values have different concrete types or differ in "
        "exactly one leaf; distinct by printed labels.")
ASSUMPTIONS = [
    "numbers of different types are = when their exact values are equal (documented in the = docstring)",
    "reflexivity is not required of values containing NaN",
    "#py list/dict/set (Python mutable) values are checked for symmetry/transitivity only, not for hashing",
]

SEQ_REPS = ["vector", "list", "cons", "lazy", "vseq", "rest", "queue", "mapseq", "entry"]

_S = {}


def S():
    if _S:
        return _S
    from basilisp.lang import keyword as kw, symbol as sym, vector as vec, list as llist, \
        map as lmap, set as lset, queue as lqueue, seq as lseq
    ses = boot.Session()
    d = dict(ses=ses, kw=kw, sym=sym, vec=vec, llist=llist, lmap=lmap, lset=lset, lqueue=lqueue,
             lseq=lseq)
    for n in ("=", "hash", "get", "contains?", "cons", "seq", "rest", "map", "identity", "pr-str",
              "hash-map", "hash-set", "lazy-seq", "not=", "map-entry", "concat", "range", "assoc"):
        d[n] = boot.core(n)
    d["mklazy"] = ses.eval("(fn mk [xs] (lazy-seq (when (seq xs) (cons (first xs) (mk (rest xs))))))")
    ses.eval("(defrecord RecA [a])")
    ses.eval("(defrecord RecB [a])")
    d["->RecA"] = ses.eval("->RecA")
    d["->RecB"] = ses.eval("->RecB")
    _S.update(d)
    return _S


# ---- abstract values -----------------------------------------------------------------
# ("nil",) ("bool",b) ("num",kind,val) ("kw",s) ("str",s) ("sym",s)
# ("seq",rep,[..]) ("map",rep,[(k,v)..]) ("set",rep,[..])

def num(kind, v):
    return ("num", kind, v)


def build(a):
    s = S()
    k = a[0]
    if k == "nil":
        return None
    if k == "bool":
        return a[1]
    if k == "num":
        kind, v = a[1], a[2]
        if kind == "int":
            return int(v)
        if kind == "float":
            return float(v)
        if kind == "ratio":
            return Fraction(v)
        if kind == "dec":
            return Decimal(v.numerator) / Decimal(v.denominator) if isinstance(v, Fraction) else Decimal(v)
    if k == "kw":
        ns, _, nm = a[1].rpartition("/")
        return s["kw"].keyword(nm, ns=ns or None)
    if k == "sym":
        return s["sym"].symbol(a[1])
    if k == "str":
        return a[1]
    if k == "seq":
        rep, items = a[1], [build(x) for x in a[2]]
        if rep == "vector":
            return s["vec"].vector(items)
        if rep == "list":
            return s["llist"].list(items)
        if rep == "cons":
            out = None if not items else None
            out = s["llist"].EMPTY
            if not items:
                return s["lseq"].EMPTY
            tail = s["llist"].list(items[1:]) if len(items) > 1 else None
            return s["cons"](items[0], tail)
        if rep == "lazy":
            return s["mklazy"](s["vec"].vector(items))
        if rep == "vseq":
            r = s["seq"](s["vec"].vector(items))
            return r if r is not None else s["lseq"].EMPTY
        if rep == "rest":
            return s["rest"](s["vec"].vector([object()] + items))
        if rep == "queue":
            return s["lqueue"].queue(items)
        if rep == "mapseq":
            return s["map"](s["identity"], s["vec"].vector(items))
        if rep == "entry":
            assert len(items) == 2
            return s["map-entry"](items[0], items[1])
        if rep == "pylist":
            return list(items)
        if rep == "pytuple":
            return tuple(items)
        raise ValueError(rep)
    if k == "map":
        rep = a[1]
        kvs = [(build(x), build(y)) for x, y in a[2]]
        if rep == "pmap":
            m = s["lmap"].EMPTY
            for x, y in kvs:
                m = m.assoc(x, y)
            return m
        if rep == "pmap-rev":
            m = s["lmap"].EMPTY
            for x, y in reversed(kvs):
                m = m.assoc(x, y)
            return m
        if rep in ("recA", "recB"):
            r = s["->RecA" if rep == "recA" else "->RecB"](kvs[0][1])
            for x, y in kvs[1:]:          # entries beyond the declared field live in the record's extension map
                r = r.assoc(x, y)
            return r
        if rep == "pydict":
            return dict(kvs)
        raise ValueError(rep)
    if k == "set":
        items = [build(x) for x in a[2]]
        if a[1] == "pset":
            return s["lset"].set(items)
        if a[1] == "pset-rev":
            return s["lset"].set(list(reversed(items)))
        if a[1] == "pyset":
            return set(items)
        if a[1] == "frozenset":
            return frozenset(items)
    raise ValueError(a)


def label(a):
    k = a[0]
    if k == "nil":
        return "nil"
    if k == "bool":
        return "true" if a[1] else "false"
    if k == "num":
        return f"{a[1]}:{a[2]}"
    if k in ("kw", "sym", "str"):
        return f"{k}:{a[1]!r}"
    if k == "seq":
        return f"{a[1]}[" + " ".join(label(x) for x in a[2]) + "]"
    if k == "map":
        return f"{a[1]}{{" + ", ".join(f"{label(x)} {label(y)}" for x, y in a[2]) + "}"
    if k == "set":
        return f"{a[1]}#{{" + " ".join(label(x) for x in a[2]) + "}"
    return repr(a)


def has_nan(a):
    if a[0] == "num":
        return isinstance(a[2], float) and math.isnan(a[2])
    if a[0] in ("seq", "set"):
        return any(has_nan(x) for x in a[2])
    if a[0] == "map":
        return any(has_nan(x) or has_nan(y) for x, y in a[2])
    return False


PY_MUTABLE = ("pylist", "pydict", "pyset")
PY_KIND = ("pylist", "pytuple", "pydict", "pyset", "frozenset")


def has_rep(a, reps):
    if a[0] in ("seq", "set"):
        return a[1] in reps or any(has_rep(x, reps) for x in a[2])
    if a[0] == "map":
        return a[1] in reps or any(has_rep(x, reps) or has_rep(y, reps) for x, y in a[2])
    return False


def numval(a):
    v = a[2]
    if isinstance(v, float):
        if math.isnan(v) or math.isinf(v):
            return v
        return Fraction(v)
    return Fraction(v)


def model_eq(a, b, keyblind=False, inkey=False):
    """structural equality per the statement. keyblind=True gives the *defect model* of the known
    finding F-05c: at map-key / set-element positions Python's True == 1 / False == 0 leaks in."""
    ka, kb = a[0], b[0]
    if ka == "num" and kb == "num":
        va, vb = numval(a), numval(b)
        if isinstance(va, float) and math.isnan(va) or isinstance(vb, float) and math.isnan(vb):
            return False
        return va == vb
    if keyblind and inkey and {ka, kb} == {"bool", "num"}:
        bv = a[1] if ka == "bool" else b[1]
        nv = numval(a if ka == "num" else b)
        return nv == (1 if bv else 0)
    if ka != kb:
        return False
    if ka == "nil":
        return True
    if ka == "bool":
        return a[1] == b[1]
    if ka in ("kw", "sym", "str"):
        return a[1] == b[1]
    if ka == "seq":
        # python list/tuple are not Lisp sequentials: not prescribed by the statement
        if (a[1] in PY_KIND) != (b[1] in PY_KIND):
            return None
        if a[1] in PY_KIND and a[1] != b[1]:
            return False
        if len(a[2]) != len(b[2]):
            return False
        r = True
        for x, y in zip(a[2], b[2]):
            e = model_eq(x, y, keyblind, False)
            if e is None:
                r = None
            elif not e:
                return False
        return r
    if ka == "map":
        if a[1].startswith("rec") or b[1].startswith("rec"):
            if a[1] != b[1]:
                # record vs map / other record type: the statement does not prescribe it
                return None if not (a[1].startswith("rec") and b[1].startswith("rec")) else False
        if (a[1] in PY_KIND) != (b[1] in PY_KIND):
            return None
        if len(a[2]) != len(b[2]):
            return False
        r = True
        for x, y in a[2]:
            hit = None
            for x2, y2 in b[2]:
                e = model_eq(x, x2, keyblind, True)
                if e:
                    hit = y2
                    break
            if hit is None:
                return False
            e = model_eq(y, hit, keyblind, False)
            if e is None:
                r = None
            elif not e:
                return False
        return r
    if ka == "set":
        if (a[1] in PY_KIND) != (b[1] in PY_KIND):
            return None
        if len(a[2]) != len(b[2]):
            return False
        for x in a[2]:
            if not any(model_eq(x, y, keyblind, True) for y in b[2]):
                return False
        return True
    raise ValueError(a)


def conc_type(a):
    return a[1] if a[0] in ("seq", "map", "set") else (a[1] if a[0] == "num" else a[0])


# ---- universe ------------------------------------------------------------------------

def universe():
    I = lambda n: num("int", n)
    nil, T, Fa = ("nil",), ("bool", True), ("bool", False)
    kwa, kwb = ("kw", "a"), ("kw", "n/a")
    leaves = [nil, T, Fa, I(0), I(1), I(2), num("float", 1.0), num("float", 0.0), num("float", 0.5),
              num("ratio", Fraction(1, 2)), num("dec", Fraction(1, 2)), num("dec", Fraction(1)),
              num("float", float("nan")), num("int", 2 ** 64), num("float", float(2 ** 64)),
              kwa, kwb, ("sym", "a"), ("str", "a"), ("str", "")]
    out = list(leaves)
    contents = [[], [I(1)], [I(1), I(2)], [nil], [T], [num("float", 1.0)], [I(2), I(1)], [I(1), I(2), I(3)]]
    for c in contents:
        for rep in SEQ_REPS:
            if rep == "entry" and len(c) != 2:
                continue
            out.append(("seq", rep, c))
    out.append(("seq", "vector", [("seq", "vector", [I(1)])]))
    out.append(("seq", "list", [("seq", "lazy", [I(1)])]))
    out.append(("seq", "vector", [("seq", "list", [T])]))
    out.append(("seq", "vector", [num("float", float("nan"))]))
    out.append(("seq", "list", [num("float", float("nan"))]))
    out.append(("seq", "pylist", [I(1), I(2)]))
    out.append(("seq", "pytuple", [I(1), I(2)]))
    for rep in ("pmap", "pmap-rev"):
        out.append(("map", rep, []))
        out.append(("map", rep, [(kwa, I(1))]))
        out.append(("map", rep, [(kwa, T)]))
        out.append(("map", rep, [(kwa, I(1)), (kwb, I(2))]))
        out.append(("map", rep, [(("seq", "vector", [I(1), I(2)]), kwa)]))
        out.append(("map", rep, [(("seq", "list", [I(1), I(2)]), kwa)]))
        out.append(("map", rep, [(I(1), kwa)]))
        out.append(("map", rep, [(T, kwa)]))
        out.append(("map", rep, [(kwa, ("seq", "vector", [I(1)]))]))
        out.append(("map", rep, [(kwa, ("seq", "list", [I(1)]))]))
    out.append(("map", "recA", [(kwa, I(1))]))
    out.append(("map", "recB", [(kwa, I(1))]))
    out.append(("map", "recA", [(kwa, I(2))]))
    out.append(("map", "recA", [(kwa, I(1)), (kwb, I(2))]))
    out.append(("map", "recA", [(kwa, I(1)), (kwb, I(3))]))
    out.append(("map", "recA", [(kwa, I(1)), (kwb, T)]))
    out.append(("map", "pydict", [(kwa, I(1))]))
    for rep in ("pset", "pset-rev"):
        out.append(("set", rep, []))
        out.append(("set", rep, [I(1)]))
        out.append(("set", rep, [T]))
        out.append(("set", rep, [I(1), I(2)]))
        out.append(("set", rep, [num("float", 1.0), I(2)]))
        out.append(("set", rep, [("seq", "vector", [I(1)])]))
        out.append(("set", rep, [("seq", "list", [I(1)])]))
        out.append(("set", rep, [nil]))
    out.append(("set", "frozenset", [I(1), I(2)]))
    out.append(("set", "pyset", [I(1), I(2)]))
    return out


# ---- checks --------------------------------------------------------------------------

def real_eq(x, y):
    return bool(S()["="](x, y))


def try_hash(x):
    try:
        return ("ok", S()["hash"](x), hash(x))
    except TypeError:
        return ("unhashable",)


def attribute(a, b, got, want):
    """known-finding attribution: the deviation must equal what the F-05c defect model predicts"""
    if want is not None and got != want and model_eq(a, b, keyblind=True) == got:
        return "F-05c"
    return None


def check_pair(rec, a, b, va=None, vb=None, cls="pair"):
    s = S()
    case = {"kind": "pair", "a": label(a), "b": label(b)}
    nontriv = conc_type(a) != conc_type(b)
    rec.case(canon(case), nontrivial=nontriv, cls=f"{cls}/{a[0]}x{b[0]}", sample=case, sub=cls)
    va = build(a) if va is None else va
    vb = build(b) if vb is None else vb
    e1, e2 = real_eq(va, vb), real_eq(vb, va)
    if e1 != e2:
        raise Violation("symmetry", case, f"(= a b)={e1} (= b a)={e2}")
    want = model_eq(a, b)
    if has_nan(a) and has_nan(b):
        want = None  # identical objects holding NaN may or may not be =: only the laws apply
    if want is not None and e1 != want:
        raise Violation(f"structural-equality:{a[0]}", case,
                        f"(= a b)={e1}; the statement's structural definition says {want}",
                        finding=attribute(a, b, e1, want))
    if e1:
        ha, hb = try_hash(va), try_hash(vb)
        if ha[0] == "ok" and hb[0] == "ok":
            if ha[1] != hb[1] or ha[2] != hb[2]:
                raise Violation("equal-but-different-hash", case, f"hash a={ha[1:]} hash b={hb[1:]}")
            kv = s["kw"].keyword("v")
            m = s["lmap"].EMPTY.assoc(va, kv)
            if s["get"](m, vb) is not kv:
                raise Violation("equal-key-not-found-in-map", case, "(get {a :v} b) is not :v")
            if not s["contains?"](m, vb):
                raise Violation("equal-key-not-found-in-map", case, "(contains? {a :v} b) is false")
            st_ = s["lset"].set([va])
            if not s["contains?"](st_, vb):
                raise Violation("equal-member-not-found-in-set", case, "(contains? #{a} b) is false")
            m2 = s["hash-map"](va, 1, kv, 2)
            if s["get"](m2, vb) != 1:
                raise Violation("equal-key-not-found-in-map", case, "(get (hash-map a 1 :v 2) b) is not 1")
        elif not (has_rep(a, PY_MUTABLE) or has_rep(b, PY_MUTABLE)):
            raise Violation("persistent-value-unhashable", case, f"{ha} {hb}")
    return e1


def check_reflexive(rec, a):
    if has_nan(a):
        return
    case = {"kind": "refl", "a": label(a)}
    rec.case(canon(case), nontrivial=a[0] in ("seq", "map", "set"), cls="reflexive", sub="reflexive")
    v1, v2 = build(a), build(a)
    if not real_eq(v1, v1) or not real_eq(v1, v2):
        raise Violation("reflexivity", case, "(= a a) is false")


def guard(rec, findings, f, *args, **kw):
    try:
        return f(rec, *args, **kw)
    except Violation as v:
        rec.violation(v.sig, v.case, v.detail, finding=v.finding, findings=findings)
        return None


# ---- hypothesis: abstract values rendered twice ------------------------------------------

def leaf_strategy():
    return st.one_of(
        st.just(("nil",)), st.sampled_from([("bool", True), ("bool", False)]),
        st.integers(-2, 3).map(lambda n: num("int", n)),
        st.sampled_from([num("float", 1.0), num("float", 0.0), num("float", -2.0), num("float", 0.5),
                         num("ratio", Fraction(1, 2)), num("dec", Fraction(1, 2)), num("dec", Fraction(3)),
                         num("int", 2 ** 70)]),
        st.sampled_from([("kw", "a"), ("kw", "b"), ("kw", "n/a"), ("sym", "a"), ("str", "a"), ("str", "")]),
    )


def shape_strategy():
    """abstract content without representation choices: ('S',[..]) ('M',[(k,v)..]) ('E',[..]) or leaf"""
    def extend(ch):
        keyable = ch
        return st.one_of(
            st.lists(ch, max_size=4).map(lambda xs: ("S", xs)),
            st.lists(st.tuples(keyable, ch), max_size=3).map(lambda kvs: ("M", dedup_kvs(kvs))),
            st.lists(keyable, max_size=3).map(lambda xs: ("E", dedup(xs))),
        )
    return st.recursive(leaf_strategy(), extend, max_leaves=10)


def shape_key(x):
    """canonical key of abstract content up to model equality (used to dedup keys inside one map/set)"""
    if x[0] == "num":
        v = numval(x)
        return ("num", str(v))
    if x[0] == "S":
        return ("S", tuple(shape_key(e) for e in x[1]))
    if x[0] == "M":
        return ("M", frozenset((shape_key(k), shape_key(v)) for k, v in x[1]))
    if x[0] == "E":
        return ("E", frozenset(shape_key(e) for e in x[1]))
    return x


def pykey(x):
    """key under Python's ==, where True==1: used to avoid generating maps/sets whose keys collide only
    through the known finding F-05c in the *generator* (we want them, but not by accident inside one map)"""
    k = shape_key(x)
    return k


def dedup(xs):
    seen, out = set(), []
    for x in xs:
        k = blind_key(x)
        if k not in seen:
            seen.add(k)
            out.append(x)
    return out


def dedup_kvs(kvs):
    seen, out = set(), []
    for k, v in kvs:
        kk = blind_key(k)
        if kk not in seen:
            seen.add(kk)
            out.append((k, v))
    return out


def blind_key(x):
    """key that identifies true with 1 and false with 0 (so one literal map/set never holds both: the
    behaviour of such a collection is the known finding F-05c, generated on purpose elsewhere)"""
    if x[0] == "bool":
        return ("num", str(Fraction(1 if x[1] else 0)))
    if x[0] == "num":
        return ("num", str(numval(x)))
    if x[0] == "S":
        return ("S", tuple(blind_key(e) for e in x[1]))
    if x[0] == "M":
        return ("M", frozenset((blind_key(k), blind_key(v)) for k, v in x[1]))
    if x[0] == "E":
        return ("E", frozenset(blind_key(e) for e in x[1]))
    return x


def render(shape, draw_int):
    """choose representations; draw_int(n) -> int in [0,n)"""
    k = shape[0]
    if k == "S":
        items = [render(x, draw_int) for x in shape[1]]
        reps = [r for r in SEQ_REPS if r != "entry" or len(items) == 2]
        return ("seq", reps[draw_int(len(reps))], items)
    if k == "M":
        kvs = [(render(a, draw_int), render(b, draw_int)) for a, b in shape[1]]
        if draw_int(2):
            kvs = list(reversed(kvs))
        return ("map", ["pmap", "pmap-rev"][draw_int(2)], kvs)
    if k == "E":
        items = [render(x, draw_int) for x in shape[1]]
        if draw_int(2):
            items = list(reversed(items))
        return ("set", ["pset", "pset-rev"][draw_int(2)], items)
    return shape


def leaves(shape, path=()):
    k = shape[0]
    if k == "S" or k == "E":
        for i, x in enumerate(shape[1]):
            yield from leaves(x, path + (i,))
    elif k == "M":
        for i, (a, b) in enumerate(shape[1]):
            yield from leaves(a, path + (i, 0))
            yield from leaves(b, path + (i, 1))
    else:
        yield path


def replace_leaf(shape, path, new):
    if not path:
        return new
    k = shape[0]
    if k in ("S", "E"):
        xs = list(shape[1])
        xs[path[0]] = replace_leaf(xs[path[0]], path[1:], new)
        return (k, xs)
    kvs = [list(kv) for kv in shape[1]]
    kvs[path[0]][path[1]] = replace_leaf(kvs[path[0]][path[1]], path[2:], new)
    return ("M", [tuple(kv) for kv in kvs])


def get_leaf(shape, path):
    path = list(path)
    while path:
        if shape[0] == "M":
            i, j = path.pop(0), path.pop(0)
            shape = shape[1][i][j]
        else:
            shape = shape[1][path.pop(0)]
    return shape


MUTATIONS = {
    "nil": [("bool", False), num("int", 0)],
    "bool": None,
    "num": None,
    "kw": [("str", "a"), ("sym", "a"), ("kw", "c")],
    "sym": [("kw", "a"), ("str", "a")],
    "str": [("kw", "a"), ("str", "b")],
}


def mutate_leaf(leaf, n):
    if leaf[0] == "bool":
        opts = [num("int", 1 if leaf[1] else 0), ("bool", not leaf[1]), num("float", 1.0 if leaf[1] else 0.0), ("nil",)]
    elif leaf[0] == "num":
        v = numval(leaf)
        opts = [num("int", 7)]
        if v == 1:
            opts.append(("bool", True))
        if v == 0:
            opts += [("bool", False), ("nil",)]
    else:
        opts = MUTATIONS[leaf[0]]
    return opts[n % len(opts)]


def shard(i, n, tier, seed, findings):
    rec = Recorder(ID)
    U = universe()
    vals = [build(a) for a in U]
    N = len(U)
    # pair matrix (exhaustive); shards split the rows, but transitivity needs the whole matrix,
    # so every shard computes the (cheap) matrix silently and checks only its own rows/triples.
    M = [[None] * N for _ in range(N)]
    for x in range(N):
        for y in range(N):
            if x % n == i:
                r = guard(rec, findings, check_pair, U[x], U[y], vals[x], vals[y])
                M[x][y] = real_eq(vals[x], vals[y]) if r is None else r
            else:
                M[x][y] = real_eq(vals[x], vals[y])
    rec.exhaustive["pair"] = True
    for x in range(N):
        if x % n == i:
            guard(rec, findings, check_reflexive, U[x])
    # triples
    cnt = 0
    for x in range(N):
        if x % n != i:
            continue
        for y in range(N):
            if not M[x][y]:
                cnt += N
                continue
            for z in range(N):
                cnt += 1
                if M[y][z] and not M[x][z]:
                    case = {"kind": "triple", "a": label(U[x]), "b": label(U[y]), "c": label(U[z])}
                    fid = None
                    if model_eq(U[x], U[y], True) and model_eq(U[y], U[z], True) and \
                            not (model_eq(U[x], U[y]) and model_eq(U[y], U[z])):
                        fid = "F-05c"
                    rec.violation("transitivity", case, "(= a b) and (= b c) but not (= a c)", finding=fid, findings=findings)
    rec.evaluations += cnt
    rec.sub["triple"] = cnt
    nt = sum(1 for x in range(N) if x % n == i for y in range(N) if M[x][y] and conc_type(U[x]) != conc_type(U[y]))
    rec.count("triples_with_equal_first_pair_of_different_type", nt * N)
    for x in range(N):
        if x % n == i:
            for y in range(N):
                if M[x][y] and conc_type(U[x]) != conc_type(U[y]):
                    for z in range(0, N, 7):
                        rec.nontrivial.add(hash_triple(x, y, z))
    rec.exhaustive["triple"] = True

    # random nested
    strat = st.tuples(shape_strategy(), st.lists(st.integers(0, 1000), min_size=40, max_size=40),
                      st.sampled_from(["rerender", "mutate"]))

    def mk(val):
        shape, ints, mode = val
        it = iter(itertools.cycle(ints))
        draw = lambda k: next(it) % k
        a = render(shape, draw)
        if mode == "rerender":
            b = render(shape, draw)
        else:
            ls = list(leaves(shape))
            if not ls:
                b = render(shape, draw)
            else:
                p = ls[draw(len(ls))]
                new = mutate_leaf(get_leaf(shape, p), draw(5))
                shape2 = replace_leaf(shape, p, new)
                if not wellformed(shape2):
                    b = render(shape, draw)
                else:
                    b = render(shape2, draw)
        return a, b

    def body(val):
        a, b = mk(val)
        check_pair(rec, a, b, cls="random-" + val[2])
        check_reflexive(rec, a)

    def to_case(val):
        a, b = mk(val)
        return {"kind": "pair", "a": label(a), "b": label(b), "abs": [ser(a), ser(b)]}

    hyp.drive(body, strat, rec=rec, findings=findings, seed=seed * 1000 + i,
              max_examples=400 if tier == "quick" else 8000, to_case=to_case)
    return rec


def wellformed(shape):
    """no map/set may hold two keys that collide under the blind key (see blind_key)"""
    k = shape[0]
    if k == "S":
        return all(wellformed(x) for x in shape[1])
    if k == "E":
        ks = [blind_key(x) for x in shape[1]]
        return len(set(ks)) == len(ks) and all(wellformed(x) for x in shape[1])
    if k == "M":
        ks = [blind_key(a) for a, _ in shape[1]]
        return len(set(ks)) == len(ks) and all(wellformed(a) and wellformed(b) for a, b in shape[1])
    return True


def hash_triple(x, y, z):
    from vlib.harness import h8
    return h8(f"t{x},{y},{z}")


# ---- (de)serialisation for replay -------------------------------------------------------

def ser(a):
    k = a[0]
    if k == "num":
        v = a[2]
        return ["num", a[1], repr(v) if isinstance(v, float) else [v.numerator, v.denominator] if isinstance(v, Fraction) else v]
    if k in ("seq", "set"):
        return [k, a[1], [ser(x) for x in a[2]]]
    if k == "map":
        return [k, a[1], [[ser(x), ser(y)] for x, y in a[2]]]
    return list(a)


def deser(j):
    k = j[0]
    if k == "num":
        v = j[2]
        if isinstance(v, str):
            v = float(v)
        elif isinstance(v, list):
            v = Fraction(v[0], v[1])
        return ("num", j[1], v)
    if k in ("seq", "set"):
        return (k, j[1], [deser(x) for x in j[2]])
    if k == "map":
        return (k, j[1], [(deser(x), deser(y)) for x, y in j[2]])
    return tuple(j)


def replay(case):
    rec = Recorder(ID)
    U = universe()
    by_label = {label(a): a for a in U}
    if "abs" in case:
        a, b = deser(case["abs"][0]), deser(case["abs"][1])
        check_pair(rec, a, b)
        return
    if case["kind"] == "pair":
        check_pair(rec, by_label[case["a"]], by_label[case["b"]])
    elif case["kind"] == "refl":
        check_reflexive(rec, by_label[case["a"]])
    elif case["kind"] == "triple":
        a, b, c = (build(by_label[case[k]]) for k in "abc")
        if real_eq(a, b) and real_eq(b, c) and not real_eq(a, c):
            raise Violation("transitivity", case, "(= a b) and (= b c) but not (= a c)")
