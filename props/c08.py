"""C08 — calls bind arguments to the right arity however the call is made.

Exhaustive product: every arity signature (fixed arities within 0..4, optional variadic arity) x
call shape (direct, through the Var, apply with k leading args and a nil/vector/list/lazy/infinite
tail, partial of p args then direct/apply) x argument count 0..8, against a reference binder.
Plus: invalid signatures are rejected at analysis time; apply realizes no more of a counting lazy
tail than binding needs (+1 to test for more); recur in every arity kind and loop runs in
constant Python stack depth for 10..10^5 (10^6 thorough) iterations."""
from __future__ import annotations

import itertools
import sys

from hypothesis import strategies as st

from vlib import boot, hyp, progfuzz as pf
from vlib.harness import Recorder, Violation, canon
from props import c01

ID = "C08"
MANIFEST = {
    "technique": "exhaustive enumeration of arity signatures x call shapes x argument counts against a reference binder; counted laziness of apply; sampled Python frame depth for recur; Hypothesis for argument tails and recur-into-variadic rebinding",
    "text": "bounded-exhaustive search: all valid signatures with <=3 fixed arities in 0..4 plus an optional variadic arity are compiled; each is called directly, through its Var, through apply (0-3 leading args; tail nil/vector/list/counting lazy seq/infinite range) and through partial (0-3 args) with 0..8 arguments; bound parameters, rest sequence (nil when empty), arity errors before any body code, invalid signatures rejected at analysis, apply laziness (counted) and constant stack depth of loop/fn recur up to 10^5-10^6 iterations are checked against a reference binder. Absence of violations holds within these bounds.",
    "note": "the class of the arity error is not prescribed (any exception, no body marker logged); stack depth is sampled with sys._getframe inside the loop body",
    "engine": "E1 + reference binder",
}
LEVEL = "exploration"
NSHARDS = 16
RULE = ("all valid arity signatures x call shapes x argument counts 0..8 (exhaustive) + invalid signatures + recur shapes x "
        "iteration counts. Non-trivial = the call crosses the fixed/variadic boundary (n = max fixed +-1), or goes through "
        "apply/partial/Var, or uses recur; distinct by (signature, call source).")
ASSUMPTIONS = [
    "a call matching no arity must raise some exception before any arity body runs; the class is not prescribed",
    "apply on a function without variadic arity may realize the whole (finite) argument sequence",
]


def signatures():
    out = []
    for r in range(0, 4):
        for fixed in itertools.combinations(range(0, 5), r):
            for var in [None, 0, 1, 2, 3, 4]:
                if not fixed and var is None:
                    continue
                out.append((tuple(fixed), var))
    return out


def valid(sig):
    fixed, var = sig
    return var is None or all(var >= f for f in fixed)


PN = ["a", "b", "c", "d", "e-f"]


def fn_source(sig, name="sf"):
    fixed, var = sig
    ars = []
    for f in fixed:
        ps = PN[:f]
        ars.append(f"([{' '.join(ps)}] (t! :f{f} [:f{f} {' '.join(ps)}]))")
    if var is not None:
        ps = PN[:var]
        ars.append(f"([{' '.join(ps)} & more] (t! :v{var} [:v{var} {' '.join(ps)} more (pcnt)]))")
    return f"(fn* {name} {' '.join(ars)})"


def bind(sig, n):
    """reference binder -> ('f', k) | ('v', k) | None (arity error)"""
    fixed, var = sig
    if n in fixed:
        return ("f", n)
    if var is not None and n >= var:
        return ("v", var)
    return None


def expected(sig, args):
    b = bind(sig, len(args))
    if b is None:
        return None
    kind, k = b
    if kind == "f":
        return [f":f{k}"] + [repr(a) for a in args]
    rest = args[k:]
    return [f":v{k}"] + [repr(a) for a in args[:k]] + [None if not rest else ["seq", [repr(a) for a in rest]]]


_S = {}


def S():
    if _S:
        return _S
    R = pf.real()
    rt = R.runtime
    counter = {"n": 0}

    def lazy_counting(start, n):
        """a lazy seq of n ints (start..); every realized element bumps the counter"""
        def gen():
            for i in range(n):
                counter["n"] += 1
                yield start + i
        return boot.core("lazy-seq")(lambda: boot.core("seq")(_LazyIter(gen())))

    class _LazyIter:
        def __init__(self, g):
            self.g = g

        def __iter__(self):
            return self.g

    def depth():
        f = sys._getframe(0)
        d = 0
        while f is not None:
            d += 1
            f = f.f_back
        return d

    rt.Var.intern(R.ns, R.sym.symbol("pdepth"), depth)
    rt.Var.intern(R.ns, R.sym.symbol("pcnt"), lambda: counter["n"])
    _S.update(R=R, counter=counter)
    return _S


def shape_result(R, v):
    """[tag params... rest] -> comparable"""
    out = []
    items = list(v)
    for x in items:
        if isinstance(x, R.kw.Keyword):
            out.append(":" + x.name)
        elif x is None:
            out.append(None)
        elif isinstance(x, (R.ISeq, R.ISequential)):
            out.append(["seq", [repr(e) for e in itertools.islice(iter(x), 12)]])
        else:
            out.append(repr(x))
    return out


CALL_SHAPES = ["direct", "var", "apply0-vec", "apply0-list", "apply0-lazy", "apply1-vec", "apply2-list", "apply3-lazy",
               "apply-nil", "partial1", "partial2", "partial3-apply", "partial0", "apply-inf"]


def call_source(shape, n):
    """-> (source using the Var `sf`, arg list) or None if the shape cannot express n args"""
    args = [100 + i for i in range(n)]
    a = lambda xs: " ".join(str(x) for x in xs)
    if shape == "direct":
        return f"(sf {a(args)})", args
    if shape == "var":
        return f"((var sf) {a(args)})", args
    if shape.startswith("apply") and shape not in ("apply-nil", "apply-inf"):
        k = int(shape[5])
        kind = shape.split("-")[1]
        if n < k:
            return None
        lead, tail = args[:k], args[k:]
        if kind == "vec":
            t = f"[{a(tail)}]"
        elif kind == "list":
            t = f"(basilisp.core/list {a(tail)})"
        else:
            t = f"(lazy-counting {100 + k} {len(tail)})"
        return f"(basilisp.core/apply sf {a(lead)} {t})", args
    if shape == "apply-nil":
        return f"(basilisp.core/apply sf {a(args)} nil)", args
    if shape == "apply-inf":
        # infinite tail: only meaningful for variadic signatures; args are the leading ones
        return f"(basilisp.core/apply sf {a(args)} (basilisp.core/iterate basilisp.core/inc 500))", args
    if shape.startswith("partial"):
        p = int(shape[7])
        if n < p:
            return None
        if shape.endswith("apply"):
            return f"(basilisp.core/apply (basilisp.core/partial sf {a(args[:p])}) [{a(args[p:])}])", args
        return f"((basilisp.core/partial sf {a(args[:p])}) {a(args[p:])})", args
    raise ValueError(shape)


def run_case(rec, sig, shape, n, cfg):
    s = S()
    R = s["R"]
    cs = call_source(shape, n)
    if cs is None:
        return
    src, args = cs
    fixed, var = sig
    case = {"kind": "call", "sig": [list(fixed), var], "shape": shape, "n": n, "config": cfg}
    if shape == "apply-inf":
        if var is None:
            return
        want = expected(sig, args + [500, 501, 502, 503, 504, 505, 506, 507, 508, 509])
    else:
        want = expected(sig, args)
    boundary = (fixed and n in (max(fixed) - 1, max(fixed), max(fixed) + 1)) or (var is not None and n in (var - 1, var, var + 1))
    rec.case(canon(case), nontrivial=bool(boundary) or shape != "direct", cls=f"{shape}", sample={"sig": fn_source(sig), "call": src},
             sub="calls")
    ses = boot.Session(opts=dict(pf.ALL_CONFIGS[cfg % 8]))
    try:
        ses.ns.refer_all(R.ns)
        ses.intern("lazy-counting", lambda start, n_: _lazy_counting(s, start, n_))
        ses.eval(f"(def sf {fn_source(sig)})")
        R.log.clear()
        s["counter"]["n"] = 0
        try:
            v = ses.eval(src)
            got = ("ok", shape_result(R, v))
        except Exception as e:  # noqa
            got = ("raise", type(e).__name__)
        log = list(R.log)
        if want is None:
            if got[0] != "raise":
                raise Violation("no-arity-error", case, f"{fn_source(sig)} called with {n} args via {shape} returned {got[1]}")
            if log:
                raise Violation("body-ran-before-arity-error", case, f"markers {log} were logged although no arity matches")
            return
        if got[0] == "raise":
            raise Violation(f"valid-call-raises:{got[1]}", case, f"{fn_source(sig)} :: {src} raised {got[1]}; expected {want}")
        res = got[1]
        realized_at_entry = None
        if res and res[0].startswith(":v"):
            realized_at_entry = int(res[-1])
            res = res[:-1]
        if shape == "apply-inf":
            # the rest seq is infinite: compare its first elements only
            w = list(want)
            if isinstance(w[-1], list) and isinstance(res[-1], list):
                k = min(len(res[-1][1]), len(w[-1][1]))
                if k < 3:
                    raise Violation("rest-too-short", case, f"{res}")
                w[-1] = ["seq", w[-1][1][:k]]
                res = res[:-1] + [["seq", res[-1][1][:k]]]
            want_cmp = w
        else:
            want_cmp = want
        if res != want_cmp:
            raise Violation("wrong-binding", case, f"{fn_source(sig)} :: {src} bound {res}; expected {want_cmp}")
        if len(log) != 1 or (":" + log[0].name) != want[0]:
            raise Violation("wrong-arity-body-ran", case, f"markers {log}; expected [{want[0]}]")
        if "lazy" in shape and var is not None and bind(sig, n)[0] == "v":
            k = int(shape[5])
            needed = max(var - k, 0) + 1
            if realized_at_entry is not None and realized_at_entry > needed:
                raise Violation("apply-realizes-too-much", case,
                                f"{realized_at_entry} elements of the lazy tail were realized when the body started; binding {var} fixed params with {k} leading args needs at most {needed}")
            rec.count("laziness_checked")
    finally:
        ses.close()


def _lazy_counting(s, start, n):
    counter = s["counter"]
    lazy_seq = boot.core("lazy-seq")
    cons = boot.core("cons")

    def go(i):
        def thunk():
            if i >= n:
                return None
            counter["n"] += 1
            return cons(start + i - 100 + 100, go(i + 1))
        from basilisp.lang import seq as lseq
        return lseq.LazySeq(thunk)
    return go(0)


INVALID = [
    "(fn* ([a] 1) ([b] 2))",
    "(fn* ([a & r] 1) ([a b & r] 2))",
    "(fn* ([a b c] 1) ([a & r] 2))",
    "(fn* ([] 1) ([] 2))",
    "(fn* ([a b] 1) ([& r] 2))",
    "(fn* ([a] 1) ([a b] 2) ([a] 3))",
]
VALID_EDGE = [
    ("(fn* ([a] [:f1 a]) ([a & r] [:v1 a r]))", "(%s 1)", "[:f1 1]"),
    ("(fn* ([a] [:f1 a]) ([a & r] [:v1 a r]))", "(%s 1 2)", "[:v1 1 (2)]"),
    ("(fn* ([& r] [:v0 r]))", "(%s)", "[:v0 nil]"),
]

RECUR_SHAPES = {
    # name -> (definition of `rf`, call with N iterations) ; each returns [final-depth-equal? result]
    "loop": ("(fn* [n] (loop* [i 0 d0 nil] (if (p< i n) (recur (pinc i) (if (peq i 5) (pdepth) d0)) [(peq d0 (pdepth)) i])))", "(rf {n})", "[true {n}]"),
    "fn-single": ("(fn* rf [i n d0] (if (p< i n) (recur (pinc i) n (if (peq i 5) (pdepth) d0)) [(peq d0 (pdepth)) i]))", "(rf 0 {n} nil)", "[true {n}]"),
    "fn-multi-fixed": ("(fn* rf ([n] (rf 0 n nil)) ([i n d0] (if (p< i n) (recur (pinc i) n (if (peq i 5) (pdepth) d0)) [(peq d0 (pdepth)) i])))", "(rf 0 {n} nil)", "[true {n}]"),
    "fn-multi-fixed-with-variadic-sibling": ("(fn* rf ([i n d0] (if (p< i n) (recur (pinc i) n (if (peq i 5) (pdepth) d0)) [(peq d0 (pdepth)) i])) ([i n d0 & more] :v))", "(rf 0 {n} nil)", "[true {n}]"),
    "fn-fixed-seq-last-arg-with-variadic-sibling": ("(fn* rf ([a b] (if (pfirst b) (recur (pinc a) (basilisp.core/rest b)) [true a])) ([a b & c] :v))", "(rf 0 (basilisp.core/range {m}))", "[true {m}]"),
    "fn-variadic-rest-passthrough": ("(fn* rf [i n & r] (if (p< i n) (recur (pinc i) n r) [true i r]))", "(rf 0 {n} 7 8)", "[true {n} (7 8)]"),
    "fn-variadic-rest-rebound-vector": ("(fn* rf [i n & r] (if (p< i n) (recur (pinc i) n [1 2]) [true i r]))", "(rf 0 {n})", "[true {n} (1 2)]"),
    "fn-variadic-rest-rebound-nil": ("(fn* rf [i n & r] (if (p< i n) (recur (pinc i) n nil) [true i r]))", "(rf 0 {n} 7)", "[true {n} nil]"),
    "fn-variadic-rest-rebound-list": ("(fn* rf [i n & r] (if (p< i n) (recur (pinc i) n (basilisp.core/list i)) [true i (pcount r)]))", "(rf 0 {n})", "[true {n} 1]"),
    "fn-variadic-depth": ("(fn* rf [i n d0 & r] (if (p< i n) (recur (pinc i) n (if (peq i 5) (pdepth) d0) r) [(peq d0 (pdepth)) i]))", "(rf 0 {n} nil 1 2)", "[true {n}]"),
    "letfn-recur": ("(letfn* [rf (fn* rf [i n d0] (if (p< i n) (recur (pinc i) n (if (peq i 5) (pdepth) d0)) [(peq d0 (pdepth)) i]))] rf)", "(rf 0 {n} nil)", "[true {n}]"),
    "loop-in-try": ("(fn* [n] (try (loop* [i 0 d0 nil] (if (p< i n) (recur (pinc i) (if (peq i 5) (pdepth) d0)) [(peq d0 (pdepth)) i])) (finally nil)))", "(rf {n})", "[true {n}]"),
}


def run_recur(rec, name, n, cfg):
    s = S()
    R = s["R"]
    d, call, want = RECUR_SHAPES[name]
    m = min(n, 2000)  # the seq-walking shape is O(n) in the range it builds
    call = call.format(n=n, m=m)
    want = want.format(n=n, m=m)
    case = {"kind": "recur", "shape": name, "n": n, "config": cfg}
    rec.case(canon(case), nontrivial=True, cls=f"recur/{name}", sample={"def": d, "call": call}, sub="recur")
    ses = boot.Session(opts=dict(pf.ALL_CONFIGS[cfg % 8]))
    try:
        ses.ns.refer_all(R.ns)
        ses.eval(f"(def rf {d})")
        try:
            v = ses.eval(call)
        except RecursionError:
            raise Violation(f"recur-grows-stack:{name}", case, f"RecursionError after at most {n} iterations")
        except Exception as e:  # noqa
            raise Violation(f"recur-raises:{name}", case, f"{call} raised {type(e).__name__}: {str(e)[:200]}")
        got = boot.core("pr-str")(v)
        if got != want:
            raise Violation(f"recur-wrong-result:{name}", case, f"{call} -> {got}; expected {want}")
    finally:
        ses.close()


def run_invalid(rec, src):
    case = {"kind": "invalid-signature", "src": src}
    rec.case(src, nontrivial=True, cls="invalid-signature", sample=src, sub="signatures")
    ses = boot.Session()
    try:
        try:
            ses.eval(src)
        except Exception:  # noqa - any rejection at analysis/compile time is fine
            return
        raise Violation("invalid-signature-accepted", case, f"{src} compiled without error")
    finally:
        ses.close()


def shard(i, n, tier, seed, findings):
    c01.quiet_logging()
    rec = Recorder(ID)
    S()
    work = []
    sigs = signatures()
    for sig in sigs:
        if valid(sig):
            for shape in CALL_SHAPES:
                for k in range(0, 9):
                    work.append(("call", sig, shape, k))
        else:
            work.append(("invalid-sig", sig))
    for src in INVALID:
        work.append(("invalid", src))
    iters = [10, 1000, 100000] + ([1000000] if tier == "thorough" else [])
    for name in RECUR_SHAPES:
        for it in iters:
            work.append(("recur", name, it))
    if tier == "quick":
        # quick: every signature, but a rotating third of the argument counts per (sig, shape)
        work = [w for idx, w in enumerate(work) if w[0] != "call" or (idx + seed) % 3 == 0 or w[3] <= 1]
    rec.exhaustive["calls"] = tier == "thorough"
    for idx, w in enumerate(work):
        if idx % n != i:
            continue
        try:
            if w[0] == "call":
                run_case(rec, w[1], w[2], w[3], idx)
            elif w[0] == "invalid-sig":
                run_invalid(rec, fn_source(w[1]))
            elif w[0] == "invalid":
                run_invalid(rec, w[1])
            else:
                run_recur(rec, w[1], w[2], idx)
        except Violation as v:
            rec.violation(v.sig, v.case, v.detail, finding=v.finding, findings=findings)
    return rec


def replay(case):
    c01.quiet_logging()
    rec = Recorder(ID)
    S()
    if case["kind"] == "call":
        run_case(rec, (tuple(case["sig"][0]), case["sig"][1]), case["shape"], case["n"], case.get("config", 0))
    elif case["kind"] == "recur":
        run_recur(rec, case["shape"], case["n"], case.get("config", 0))
    else:
        run_invalid(rec, case["src"])
