"""C15 — the Python-AST optimization pass never changes what generated code does.

(a) translation validation per form: the compiler's optimizer class is replaced (module attribute,
    before basilisp.core is compiled) by a capturing subclass; every (before, after) module AST of
    every top-level form of basilisp.core, of every bundled namespace and of the generated E1
    programs is validated rewrite by rewrite (vlib/astdiff.py).
(b) differential execution: generated E1 programs with effect markers are compiled with the real
    optimizer and with an identity optimizer and must give the same value / exception class /
    effect trace."""
from __future__ import annotations

import ast
import copy
import importlib
import os

from hypothesis import strategies as st

from vlib import boot, hyp, astdiff, progfuzz as pf
from vlib.harness import Recorder, Violation, canon

ID = "C15"
NEEDS_INIT = False   # prepare() installs the capturing optimizer first, then initialises basilisp
MANIFEST = {
    "technique": "per-form translation validation of captured (before, after) Python ASTs against the list of permitted rewrites with side conditions + differential execution of Hypothesis-generated marker programs with the real vs an identity optimizer",
    "text": "translation validation by generated/bundled input: every top-level form of basilisp.core (captured while it compiles from source), of the bundled library namespaces and of generated programs is checked pairwise (unoptimized AST, optimized AST): each difference must be one of the listed rewrites with its side condition (dropped bare constant/name, unreachable statements, empty if with effect-free test, if-negation, merged global declarations, operator.X -> native operator with same operands, order and meaning); generated programs are additionally executed with and without the pass and their value, exception class and effect trace compared.",
    "note": "trusts the ~300-line differ; purity of if-tests is judged syntactically (names, constants, is/is-not, not, and/or); programs whose unoptimized body does not compile (duplicate global declarations) are counted as not comparable",
    "category": "translation_validation",
    "engine": "E7 Python-AST rewrite validator + E1",
}
LEVEL = "translation_validation"
NSHARDS = 16
RULE = ("(before, after) AST pairs of every top-level form of basilisp.core, the bundled namespaces and generated programs; "
        "non-trivial = the pair differs (at least one rewrite applied); distinct by ast.dump of the before-AST. "
        "Differential execution: Hypothesis marker programs, optimizer on vs identity.")
ASSUMPTIONS = [
    "the optimizer is reached only through PythonASTOptimizer().visit(module) (compiler/__init__.py and importer.py)",
    "purity of an if-test is decided syntactically",
]

LIB_NAMESPACES = ["basilisp.string", "basilisp.set", "basilisp.walk", "basilisp.edn", "basilisp.json", "basilisp.io",
                  "basilisp.data", "basilisp.pprint", "basilisp.shell", "basilisp.template", "basilisp.test",
                  "basilisp.url", "basilisp.csv", "basilisp.process", "basilisp.reflect", "basilisp.repl",
                  "basilisp.stacktrace", "basilisp.contrib.bencode", "basilisp.contrib.nrepl-server",
                  "basilisp.test.fixtures", "basilisp.core.protocols"]

_CAP = {"rec": None, "on": True, "pairs": 0, "samples": []}


def install():
    from basilisp.lang import compiler
    from basilisp.lang.compiler import optimizer as optmod
    from basilisp.lang.compiler.constants import OPERATOR_ALIAS
    Base = optmod.PythonASTOptimizer

    class CapturingOptimizer(Base):
        def visit(self, node):
            if not isinstance(node, ast.Module) or not _CAP["on"]:
                return super().visit(node)
            before = copy.deepcopy(node)
            out = super().visit(node)
            validate_pair(before, out, OPERATOR_ALIAS)
            return out

    compiler.PythonASTOptimizer = CapturingOptimizer
    _CAP["Base"] = Base
    _CAP["alias"] = OPERATOR_ALIAS


def validate_pair(before, after, alias):
    rec = _CAP["rec"]
    _CAP["pairs"] += 1
    try:
        dump_b = ast.dump(before)
        differs = dump_b != ast.dump(after)
    except Exception:  # noqa
        dump_b, differs = repr(before), True
    why, rewrites = astdiff.explain(before, after, alias)
    if rec is None:
        return
    origin = _CAP.get("origin", "?")
    rec.case(dump_b, nontrivial=differs, cls=f"pairs/{origin}", sub="ast-pairs")
    for k, v in rewrites.items():
        rec.event("rewrite/" + k, v)
    if differs and len(_CAP["samples"]) < 6 and rewrites:
        try:
            _CAP["samples"].append({"origin": origin, "before": ast.unparse(ast.fix_missing_locations(copy.deepcopy(before)))[:300],
                                    "after": ast.unparse(ast.fix_missing_locations(copy.deepcopy(after)))[:300],
                                    "rewrites": rewrites})
        except Exception:  # noqa
            pass
    if why is not None:
        kind, msg = why
        try:
            src_b = ast.unparse(ast.fix_missing_locations(copy.deepcopy(before)))
            src_a = ast.unparse(ast.fix_missing_locations(copy.deepcopy(after)))
        except Exception:  # noqa
            src_b, src_a = dump_b[:2000], ast.dump(after)[:2000]
        case = {"kind": "pair", "origin": origin, "before": src_b[:6000], "after": src_a[:6000]}
        rec.violation(f"rewrite-not-permitted:{kind}", case, msg, findings=_CAP.get("findings"))


def prepare(tier, seed):
    boot.prepare_env()
    install()
    rec = Recorder(ID)
    _CAP["rec"] = rec
    _CAP["origin"] = "basilisp.core"
    boot.init()
    _CAP["core_rec"] = rec
    _CAP["rec"] = None


class Identity:
    """no optimization; remembers whether the unoptimized module is valid Python at all"""

    def __init__(self):
        self.uncompilable = False

    def visit(self, node):
        if isinstance(node, ast.Module):
            try:
                compile(ast.fix_missing_locations(copy.deepcopy(node)), "<unoptimized>", "exec")
            except (ValueError, SyntaxError, TypeError):
                self.uncompilable = True
        return node


def run_real_unoptimized(prog, config):
    """like pf.run_real but with an identity optimizer"""
    R = pf.real()
    ses = boot.Session(opts=dict(config))
    try:
        ses.ctx._optimizer = Identity()
        ses.ns.refer_all(R.ns)
        R.log.clear()
        try:
            for nm, e in prog["defs"]:
                ses.eval(f"(def {nm} {pf.render(e)})")
            v = ses.eval(pf.render(prog["main"]))
            out = ["ok", R.shape(v)]
        except BaseException as e:  # noqa
            if isinstance(e, (KeyboardInterrupt, SystemExit, MemoryError)):
                raise
            out = ["raise", pf.classify_real_exception(e, R)]
        if ses.ctx._optimizer.uncompilable:
            out = ["raise", "PYSYNTAX:unoptimized module is not valid Python"]
        return out, list(R.log)
    finally:
        ses.close()


def check_differential(rec, prog, cfg):
    from props import c01
    src = c01.source(prog)
    config = pf.ALL_CONFIGS[cfg % 8]
    _CAP["origin"] = "generated-programs"
    o1, l1 = pf.run_real(prog, config)           # goes through the capturing optimizer: pairs validated too
    _CAP["on"] = False
    try:
        o2, l2 = run_real_unoptimized(prog, config)
    finally:
        _CAP["on"] = True
    rec.case("exec:" + src, nontrivial=True, cls="differential-exec", sample=src, sub="differential-exec")
    if o2[0] == "raise" and o2[1].startswith("PYSYNTAX"):
        rec.count("unoptimized_body_does_not_compile")
        return
    if (o1, l1) != (o2, l2):
        raise Violation("optimized-and-unoptimized-differ", {"kind": "prog", "prog": prog, "config": cfg, "src": src},
                        f"optimized: {o1} trace {l1}; unoptimized: {o2} trace {l2}")


def shard(i, n, tier, seed, findings):
    import sys, time
    t0 = time.time()
    from props import c01
    c01.quiet_logging()
    rec = _CAP["core_rec"] if i == 0 else Recorder(ID)
    _CAP["rec"] = rec
    _CAP["findings"] = findings
    pf.real()
    # bundled namespaces (each compiled from source in exactly one shard)
    for j, name in enumerate(LIB_NAMESPACES):
        if j % n != i:
            continue
        _CAP["origin"] = name
        try:
            importlib.import_module(name.replace("-", "_"))
            rec.count("namespaces_compiled")
        except Exception as e:  # noqa
            rec.count("namespaces_failed_to_import")
            rec.extra.setdefault("import_errors", "")
            rec.extra["import_errors"] += f"{name}: {type(e).__name__}: {str(e)[:80]}; "

    if i == 0:
        sys.stderr.write(f"[c15] shard0 libs done {time.time()-t0:.1f}s\n")

    def body(val):
        prog, cfg = val
        check_differential(rec, prog, cfg)

    n_ex = 120 if tier == "quick" else 3000
    hyp.drive(body, st.tuples(pf.program_strategy(markers=True), st.integers(0, 7)), rec=rec, findings=findings,
              seed=seed * 1000 + i, max_examples=n_ex,
              to_case=lambda v: {"kind": "prog", "prog": v[0], "config": v[1]})
    if i == 0:
        sys.stderr.write(f"[c15] shard0 hypothesis done {time.time()-t0:.1f}s\n")
    # hand-written shapes that exercise each rewrite kind with effectful operands
    for k, src in enumerate(OPERATOR_SHAPES):
        if k % n != i:
            continue
        try:
            check_src_differential(rec, src)
        except Violation as v:
            rec.violation(v.sig, v.case, v.detail, findings=findings)
    if i == 0 and _CAP["samples"]:
        rec.samples.setdefault("rewritten-pair", []).extend(_CAP["samples"][:2])
    return rec


OPERATOR_SHAPES = [
    "(operator/add (t! 1 1) (t! 2 2))", "(operator/sub (t! 1 5) (t! 2 2))", "(operator/lt (t! 1 1) (t! 2 2))",
    "(operator/is- (t! 1 1.0) 1)", "(operator/is- 1.0 1.0)", "(operator/is- (t! 1 nil) nil)", "(operator/is-not (t! 1 1) 1.0)",
    "(identical? 1.0 1)", "(identical? (t! 1 :a) :a)", "(identical? 255 255)", "(operator/is- \"a\" \"a\")",
    "(operator/contains (t! 1 [1 2]) (t! 2 1))", "(operator/contains [1 2] (t! 2 1))", "(operator/getitem (t! 1 [5 6]) (t! 2 1))",
    "(operator/not- (t! 1 nil))", "(operator/mod (t! 1 -7) (t! 2 2))", "(operator/floordiv (t! 1 -7) (t! 2 2))",
    "(operator/pow (t! 1 2) (t! 2 10))", "(operator/truediv (t! 1 1) (t! 2 2))", "(operator/eq (t! 1 1) (t! 2 1.0))",
    "(let* [d (python/dict {1 2})] (operator/delitem (t! 1 d) (t! 2 1)) (python/len d))",
    "(if (t! 1 nil) nil nil)", "(do (if (t! 1 true) nil nil) (t! 2 3))", "(do (if (t! 1 true) nil (t! 2 1)) 3)",
    "((fn* [] (if (t! 1 true) 1 2) (t! 3 4)))", "(try (t! 1 1) (finally nil))", "(try (t! 1 1) (finally (t! 2 2)))",
    "(loop* [i 0] (if (operator/lt i 2) (recur (operator/add i 1)) (t! 1 i)))",
    "((fn* [] (do (throw (python/ValueError (t! 1 \"x\"))) (t! 2 1))))",
    "(def *cg* 1) ((fn* [] (def *cg* (t! 1 2)) (def *cg* (t! 2 3)) *cg*))",
    # operands that have effects without being plain calls once the pass has rewritten them (BinOp, Subscript, attribute of a call)
    "(operator/contains (operator/add (t! 1 [1]) (t! 2 [2])) (t! 3 1))",
    "(operator/contains (operator/getitem (t! 1 [[1 2]]) (t! 2 0)) (t! 3 1))",
    "(operator/contains (.-args (t! 1 (python/ValueError 1 2))) (t! 2 1))",
    "(operator/contains (t! 1 [1]) (operator/add (t! 2 0) (t! 3 1)))",
    "(try (operator/contains (operator/getitem (t! 1 [1]) 5) (t! 2 1)) (catch python/IndexError _ :index-error))",
    "(operator/is- (operator/add (t! 1 1) (t! 2 1)) (operator/sub (t! 3 3) (t! 4 1)))",
    "(operator/lt (operator/getitem (t! 1 [1]) 0) (operator/getitem (t! 2 [2]) 0))",
    # statements that are attribute loads: they can raise and run property code, so they may not be dropped
    "(let* [o (t! 1 5)] (try (do (.-nope o) :no-raise) (catch python/AttributeError _ :raised)))",
    "(try ((fn* [o] (.-nope o) :done) (t! 1 5)) (catch python/AttributeError _ :raised))",
    "(let* [o (t! 1 5)] (.-real o) (.-imag o) (t! 2 :end))",
    "(let* [o (t! 1 \"s\")] (try (do (. o -nope) (.-nope2 o) 1) (catch python/AttributeError e (t! 2 :raised))))",
]


def check_src_differential(rec, src):
    from props import c02
    _CAP["origin"] = "operator-shapes"
    o1, l1 = c02.run_src(src, pf.ALL_CONFIGS[0])
    R = pf.real()
    ses = boot.Session()
    _CAP["on"] = False
    try:
        ses.ctx._optimizer = Identity()
        ses.ns.refer_all(R.ns)
        R.log.clear()
        try:
            o2 = ["ok", R.shape(ses.eval(src))]
        except Exception as e:  # noqa
            o2 = ["raise", pf.classify_real_exception(e, R)]
        if ses.ctx._optimizer.uncompilable:
            o2 = ["raise", "PYSYNTAX:unoptimized module is not valid Python"]
        l2 = list(R.log)
    finally:
        _CAP["on"] = True
        ses.close()
    rec.case("shape:" + src, nontrivial=True, cls="operator-shapes", sample=src, sub="differential-exec")
    if o2[0] == "raise" and o2[1].startswith("PYSYNTAX"):
        rec.count("unoptimized_body_does_not_compile")
        return
    if (o1, l1) != (o2, l2):
        raise Violation("optimized-and-unoptimized-differ", {"kind": "src", "src": src},
                        f"optimized: {o1} trace {l1}; unoptimized: {o2} trace {l2}")


def extra_coverage(rec, tier):
    return {"programs": int(rec.sub.get("ast-pairs", 0) + rec.sub.get("differential-exec", 0)),
            "disagreements_checked": int(len(rec.nontrivial))}


def replay(case):
    from props import c01
    c01.quiet_logging()
    rec = Recorder(ID)
    _CAP["rec"] = None
    pf.real()
    if case["kind"] == "pair":
        # re-validate the stored source pair
        b, a = ast.parse(case["before"]), ast.parse(case["after"])
        why, _ = astdiff.explain(b, a, _CAP["alias"])
        if why:
            raise Violation("rewrite-not-permitted:" + why[0], case, why[1])
        return
    if case["kind"] == "src":
        check_src_differential(rec, case["src"])
        return
    check_differential(rec, case["prog"], case.get("config", 0))
