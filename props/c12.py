"""C12 — atom updates are atomic under every thread schedule and always terminate.

2-3 real threads, each performing 1-3 atom operations (swap! reset! compare-and-set! swap-vals!
reset-vals!, update functions pure / slow (yield points inside) / throwing, optional validator,
0-2 watches), run under the deterministic scheduler (vlib/detsched.py): the schedule is a generated
choice list, with yield points at every line of atom.py / reference.py and of the core wrappers.
Oracle: linearizability (a sequential order of the completed operations, consistent with per-thread
order and with completed-before-invoked pairs, that explains every return value, the final value
and every watch (old, new) pair as a real transition); rejected values never observable;
single-thread termination within a counted number of compare-and-set attempts for every stored
value including NaN and objects with pathological __eq__."""
from __future__ import annotations

import itertools
import math

from hypothesis import strategies as st

from vlib import boot, hyp, detsched
from vlib.harness import Recorder, Violation, canon
from props import c01

ID = "C12"
MANIFEST = {
    "technique": "deterministic line-granularity scheduler over real threads with Hypothesis-generated schedules (+ systematic enumeration of schedules with <=2 preemptions for 2-thread configurations in the thorough tier); brute-force linearizability oracle incl. return values, final value and watch pairs; counted retry budget for termination",
    "text": "schedule search with an explicit oracle: generated configurations of 2-3 threads x 1-3 atom operations run under a scheduler that owns every interleaving decision at Python-line granularity inside atom.py, reference.py and the core wrappers (locks are scheduler-aware, so deadlock and livelock are counted verdicts, not time-outs); every completed history must be linearizable (return values, final deref, each watch (old,new) pair a real transition, validator-rejected values never visible); every operation on a single thread must finish within 3 compare-and-set attempts for every stored value (NaN, [NaN], objects whose __eq__ is always-true / always-false / raising). Holds for the explored schedules.",
    "note": "yield points are Python lines, not bytecodes: a race inside one line is invisible; C-level primitives that the lock wrappers do not cover are invisible",
    "engine": "E4 deterministic scheduler",
}
LEVEL = "exploration"
NSHARDS = 16
RULE = ("Hypothesis (configuration, choice list) pairs; thorough adds all schedules with <=2 preemptions for 2-thread configurations. "
        "Non-trivial = at least one preemption lands inside an operation (between its read of the state and its compare-and-set); "
        "distinct by (configuration, effective schedule).")
ASSUMPTIONS = [
    "line-granularity interleavings only",
    "compare-and-set! compares by value (= / identity), as the implementation documents; always-true __eq__ objects are only used for the termination check",
]

TRACE_FILES = ("atom.py", "reference.py")
CORE_FNS = {"swap__BANG__", "reset__BANG__", "compare_and_set__BANG__", "swap_vals__BANG__", "reset_vals__BANG__"}


def trace_filter(filename, name):
    if filename.endswith(TRACE_FILES):
        return True
    if filename.endswith("core.lpy") and name.split("__arity")[0] in CORE_FNS:
        return True
    return filename.endswith("c12.py") and name.startswith("uf_")


_S = {}


def S():
    if _S:
        return _S
    from basilisp.lang import atom, vector as vec
    d = dict(atom=atom, vec=vec)
    for n in ("swap!", "reset!", "compare-and-set!", "swap-vals!", "reset-vals!", "deref", "add-watch"):
        d[n] = boot.core(n)
    _S.update(d)
    return _S


# ---- update functions (the slow ones have line yield points inside: see trace_filter) -----------

class Boom(Exception):
    pass


def uf_inc(x):
    return x + 1


def uf_dbl(x):
    return x * 2


def uf_add10_slow(x):
    y = x
    y = y + 5
    y = y + 5
    return y


def uf_throw(x):
    raise Boom()


def uf_neg_slow(x):
    y = -x
    y = y - 1
    return y


FNS = {"inc": (uf_inc, lambda x: x + 1), "dbl": (uf_dbl, lambda x: x * 2), "add10-slow": (uf_add10_slow, lambda x: x + 10),
       "throw": (uf_throw, None), "neg-slow": (uf_neg_slow, lambda x: -x - 1)}

# op: ["swap", fn] ["swap-vals", fn] ["reset", v] ["reset-vals", v] ["cas", old, new] ["deref"]


def model_apply(op, state, validator):
    """sequential semantics -> (new_state, result) ; result ('raise',) when the op must fail"""
    k = op[0]

    def valid(v):
        return validator is None or validator == "none" or (v % 2 == 0 if validator == "even" else v >= 0)

    if k in ("swap", "swap-vals"):
        f = FNS[op[1]][1]
        if f is None:
            return state, ("raise",)
        new = f(state)
        if not valid(new):
            return state, ("raise",)
        # swap-vals! / reset-vals! are documented to return [new old] (in that order)
        return new, (("ok", new) if k == "swap" else ("ok", [new, state]))
    if k in ("reset", "reset-vals"):
        if not valid(op[1]):
            return state, ("raise",)
        return op[1], (("ok", op[1]) if k == "reset" else ("ok", [op[1], state]))
    if k == "cas":
        if not valid(op[2]):
            return state, ("raise",)
        if state == op[1]:
            return op[2], ("ok", True)
        return state, ("ok", False)
    if k == "deref":
        return state, ("ok", state)
    raise ValueError(op)


def run_config(cfg, choices, max_steps=8000):
    """-> dict(history, final, watches, aborted, sched)"""
    s = S()
    sched = detsched.Sched(choices, trace_filter, max_steps=max_steps)
    validator = {"none": None, "even": (lambda v: v % 2 == 0), "nonneg": (lambda v: v >= 0)}[cfg["validator"]]
    with sched.patched():
        a = s["atom"].Atom(cfg["init"], validator=validator)
    watches = []
    for wi in range(cfg["watches"]):
        s["add-watch"](a, f"w{wi}", (lambda wi_: lambda k, ref, old, new: watches.append((wi_, old, new)))(wi))
    history = []

    def worker(tid, ops):
        def body():
            for oi, op in enumerate(ops):
                rec = {"t": tid, "i": oi, "op": op, "inv": sched.steps}
                history.append(rec)
                try:
                    k = op[0]
                    if k == "swap":
                        r = s["swap!"](a, FNS[op[1]][0])
                    elif k == "swap-vals":
                        r = list(s["swap-vals!"](a, FNS[op[1]][0]))
                    elif k == "reset":
                        r = s["reset!"](a, op[1])
                    elif k == "reset-vals":
                        r = list(s["reset-vals!"](a, op[1]))
                    elif k == "cas":
                        r = bool(s["compare-and-set!"](a, op[1], op[2]))
                    else:
                        r = s["deref"](a)
                    rec["res"] = ("ok", r)
                except detsched.SchedAbort:
                    raise
                except Exception as e:  # noqa
                    rec["res"] = ("raise", type(e).__name__)
                rec["ret"] = sched.steps
        return body

    for tid, ops in enumerate(cfg["threads"]):
        sched.spawn(worker(tid, ops))
    aborted = sched.run()
    final = a.deref() if not aborted else None
    return dict(history=history, final=final, watches=watches, aborted=aborted, sched=sched)


def normalize_result(op, res):
    if res[0] == "raise":
        return ("raise",)
    return res


def linearizable(cfg, history, final, watches):
    """brute force over orders consistent with program order and real time"""
    ops = [h for h in history if "res" in h]
    n = len(ops)
    if n > 9:
        return True
    idxs = list(range(n))

    def ok_order(order):
        pos = {o: p for p, o in enumerate(order)}
        for a in idxs:
            for b in idxs:
                if a != b:
                    ha, hb = ops[a], ops[b]
                    if (ha["t"] == hb["t"] and ha["i"] < hb["i"]) or ha["ret"] < hb["inv"]:
                        if pos[a] > pos[b]:
                            return False
        return True

    for order in itertools.permutations(idxs):
        if not ok_order(order):
            continue
        state = cfg["init"]
        transitions = []
        good = True
        for o in order:
            h = ops[o]
            new, res = model_apply(h["op"], state, cfg["validator"])
            if normalize_result(h["op"], h["res"]) != res:
                good = False
                break
            if h["op"][0] != "deref" and res[0] == "ok" and not (h["op"][0] == "cas" and res[1] is False):
                transitions.append((state, new))
            state = new
        if not good or state != final:
            continue
        # every watch saw exactly the transitions (as a multiset), each a real one
        for wi in range(cfg["watches"]):
            seen = sorted((o, n_) for (w, o, n_) in watches if w == wi)
            if seen != sorted(transitions):
                good = False
                break
        if good:
            return True
    return False


def check_case(rec, cfg, choices):
    case = {"kind": "schedule", "config": cfg, "choices": choices}
    out = run_config(cfg, choices)
    sched = out["sched"]
    inside = sched.preemptions > 0
    rec.case(canon([cfg, choices[:sched.ci]]), nontrivial=inside, cls=[f"threads/{len(cfg['threads'])}", f"preemptions/{min(sched.preemptions, 3)}"],
             sample={"config": cfg, "choices": choices[:40], "preemptions": sched.preemptions, "steps": sched.steps}, sub="schedules")
    if out["aborted"] is not None:
        kind = type(out["aborted"]).__name__
        raise Violation(f"schedule-{kind}", case, f"{out['aborted']}; config {cfg}")
    if not linearizable(cfg, out["history"], out["final"], out["watches"]):
        hist = [(h["t"], h["op"], h.get("res")) for h in out["history"]]
        raise Violation("not-linearizable", case, f"no sequential order explains history {hist}, final {out['final']!r}, watch calls {out['watches']}; init {cfg['init']}")
    for h in out["history"]:
        if h["res"][0] == "raise" and h["res"][1] not in ("Boom", "ExceptionInfo"):
            raise Violation(f"operation-raises:{h['res'][1]}", case, f"{h['op']} raised {h['res'][1]}")


# ---- single-thread termination for pathological values ------------------------------------------

class EqTrue:
    def __eq__(self, other):
        return True

    def __ne__(self, other):
        return False

    __hash__ = object.__hash__


class EqFalse:
    def __eq__(self, other):
        return False

    def __ne__(self, other):
        return True

    __hash__ = object.__hash__


class EqRaise:
    def __eq__(self, other):
        raise ValueError("no comparison")

    def __ne__(self, other):
        raise ValueError("no comparison")

    __hash__ = object.__hash__


def weird_values():
    s = S()
    return {"nan": float("nan"), "vec-nan": s["vec"].vector([float("nan")]), "eq-true": EqTrue(), "eq-false": EqFalse(),
            "eq-raise": EqRaise(), "int": 5, "nil": None, "neg-zero": -0.0}


def check_termination(rec, vname, opname):
    s = S()
    v = weird_values()[vname]
    case = {"kind": "termination", "value": vname, "op": opname}
    rec.case(canon(case), nontrivial=vname not in ("int", "nil"), cls=f"termination/{opname}", sample=case, sub="termination")
    attempts = {"n": 0}

    def filt(filename, name):
        if filename.endswith("atom.py") and name == "_compare_and_set":
            attempts["n"] += 1
            if attempts["n"] > 3:
                raise detsched.SchedAbort()
        return False

    sched = detsched.Sched([0], filt, max_steps=100000)
    a = s["atom"].Atom(v)
    box = {}

    def body():
        if opname == "reset!":
            box["r"] = s["reset!"](a, 1)
        elif opname == "swap!":
            box["r"] = s["swap!"](a, lambda x: 1)
        elif opname == "reset-vals!":
            box["r"] = s["reset-vals!"](a, 1)
        elif opname == "swap-vals!":
            box["r"] = s["swap-vals!"](a, lambda x: 1)
        elif opname == "cas":
            box["r"] = s["compare-and-set!"](a, v, 1)
        return True

    sched.spawn(body)
    sched.run()
    w = sched.workers[0]
    if w.result and w.result[0] == "aborted":
        raise Violation(f"does-not-terminate:{opname}", case,
                        f"({opname} (atom {vname}) ..) with no other thread interfering made more than 3 compare-and-set attempts")
    if w.result and w.result[0] == "raise" and vname != "eq-raise":
        raise Violation(f"termination-op-raises:{opname}", case, f"{type(w.result[1]).__name__}: {w.result[1]}")
    if w.result and w.result[0] == "ok" and vname != "eq-raise":
        if a.deref() != 1 and not (opname == "cas" and vname in ("eq-false",)):
            if not (vname == "eq-false" and opname == "cas"):
                raise Violation(f"update-not-installed:{opname}", case, f"after ({opname} (atom {vname}) 1) the atom holds {a.deref()!r}")


# ---- generators ------------------------------------------------------------------------------

def configs():
    val = st.integers(0, 6)
    op = st.one_of(
        st.tuples(st.just("swap"), st.sampled_from(list(FNS))), st.tuples(st.just("swap"), st.sampled_from(["inc", "dbl", "add10-slow"])),
        st.tuples(st.just("swap-vals"), st.sampled_from(["inc", "dbl", "neg-slow"])),
        st.tuples(st.just("reset"), val), st.tuples(st.just("reset-vals"), val), st.tuples(st.just("cas"), val, val), st.tuples(st.just("deref")),
    ).map(list)
    return st.fixed_dictionaries({
        "init": st.sampled_from([0, 2, 4]),     # valid under every validator of the pool
        "validator": st.sampled_from(["none", "none", "even", "nonneg"]),
        "watches": st.integers(0, 2),
        "threads": st.lists(st.lists(op, min_size=1, max_size=3), min_size=2, max_size=3),
    })


def choice_lists():
    return st.lists(st.sampled_from([0, 0, 0, 0, 0, 0, 1, 1, 2]), min_size=10, max_size=400)


def bounded_preemption_schedules(cfg, max_pre=2, horizon=260):
    """all schedules with <= max_pre preemptions: a preemption at yield-point index p is choice[p]=1"""
    yield []
    for k in range(1, max_pre + 1):
        for pos in itertools.combinations(range(1, horizon), k):
            ch = [0] * (pos[-1] + 1)
            for p in pos:
                ch[p] = 1
            yield ch


def shard(i, n, tier, seed, findings):
    c01.quiet_logging()
    rec = Recorder(ID)
    S()
    k = 0
    for vname in weird_values():
        for opname in ("reset!", "swap!", "reset-vals!", "swap-vals!", "cas"):
            k += 1
            if k % n != i:
                continue
            try:
                check_termination(rec, vname, opname)
            except Violation as v:
                rec.violation(v.sig, v.case, v.detail, finding=v.finding, findings=findings)
    rec.exhaustive["termination-values-x-ops"] = True

    hyp.drive(lambda c: check_case(rec, c[0], c[1]), st.tuples(configs(), choice_lists()), rec=rec, findings=findings, seed=seed * 1000 + i,
              max_examples=120 if tier == "quick" else 2500, to_case=lambda c: {"kind": "schedule", "config": c[0], "choices": c[1]})

    # systematic: every single preemption point (quick) / every pair (thorough) for a few fixed 2-thread configurations
    fixed = [
        {"init": 1, "validator": "none", "watches": 1, "threads": [[["swap", "inc"]], [["swap", "dbl"]]]},
        {"init": 0, "validator": "none", "watches": 0, "threads": [[["swap", "add10-slow"]], [["reset", 3]]]},
        {"init": 2, "validator": "even", "watches": 1, "threads": [[["cas", 2, 4]], [["swap", "dbl"], ["deref"]]]},
        {"init": 1, "validator": "none", "watches": 2, "threads": [[["swap-vals", "inc"]], [["reset-vals", 5]]]},
    ]
    j = 0
    for cfg in fixed:
        probe = run_config(cfg, [])
        horizon = min(probe["sched"].steps + 5, 400)
        for ch in bounded_preemption_schedules(cfg, max_pre=1 if tier == "quick" else 2, horizon=horizon):
            j += 1
            if j % n != i:
                continue
            try:
                check_case(rec, cfg, ch)
            except Violation as v:
                rec.violation(v.sig, v.case, v.detail, finding=v.finding, findings=findings)
    rec.exhaustive["fixed-configs-x-preemption-points"] = True
    return rec


def replay(case):
    c01.quiet_logging()
    rec = Recorder(ID)
    S()
    if case["kind"] == "termination":
        check_termination(rec, case["value"], case["op"])
    else:
        check_case(rec, case["config"], case["choices"])
