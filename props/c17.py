"""C17 — compare is a consistent total order and sort returns the ordered permutation.

Generated input: exhaustive pairs/triples over per-family universes, all permutations of
small subsets, Hypothesis lists with many ties.  Oracles: order laws, an independent model of
each family's order (exact rationals, code-point strings, (ns,name) tuples, length-then-
elementwise vectors), and a validity predicate for sort (permutation + ordered + stable)."""
from __future__ import annotations

import itertools
import math
from decimal import Decimal
from fractions import Fraction

from hypothesis import strategies as st

from vlib import boot, hyp
from vlib.harness import Recorder, Violation, canon

ID = "C17"
MANIFEST = {
    "technique": "exhaustive pair/triple enumeration per family + permutation enumeration + Hypothesis lists; order laws, independent order model, sort validity predicate",
    "text": "bounded-exhaustive and random search: every ordered pair and triple of a 13-23 element universe per comparable family is checked for antisymmetry, transitivity, zero<=>= and agreement with an independent order model; sort/sort-by are checked on all permutations of sampled k-subsets and on random lists with ties for permutation/ordered/stable. Shows absence of violations only inside these universes.",
    "note": "trusts Python's exact int/Fraction/float comparison as the numeric reference; Decimal x Fraction pairs are excluded (Python cannot order them); direction between namespaced and plain idents is not prescribed",
    "engine": "E2 data universes",
}
LEVEL = "exploration"
NSHARDS = 16
RULE = ("pairs and triples enumerated exhaustively inside each comparable family (numbers, strings, "
        "keywords, symbols, vectors; nil added to each); sort/sort-by over all permutations of "
        "k-element subsets and Hypothesis-generated lists with ties, through 4 comparators. "
        "Non-trivial = the case mixes representations (int/ratio/float/decimal, namespaced vs "
        "plain ident, vectors of different length, nil with non-nil) or contains a tie/duplicate; "
        "distinct by printed operands.")
ASSUMPTIONS = [
    "Decimal x Fraction raises TypeError in Python itself; such pairs are counted as not mutually comparable, not as violations",
    "NaN is excluded from zero<=>equal and from transitivity: the compare docstring documents NaN as equal to every number",
    "order between namespaced and un-namespaced idents is not prescribed by the statement; only the laws are checked for mixed pairs",
]

_S = {}


def S():
    if _S:
        return _S
    from basilisp.lang import keyword as kw, symbol as sym, vector as vec
    ses = boot.Session()
    _S.update(
        ses=ses, kw=kw, sym=sym, vec=vec,
        compare=boot.core("compare"), eq=boot.core("="), sort=boot.core("sort"),
        sort_by=boot.core("sort-by"), pr=boot.core("pr-str"),
        ccompare=ses.eval("(fn [a b] (compare a b))"),
        lt=boot.core("<"), gt=boot.core(">"),
        rev3=ses.eval("(fn [a b] (compare b a))"),
        first=boot.core("first"),
    )
    return _S


def families():
    s = S()
    kw, sym, vec = s["kw"], s["sym"], s["vec"]
    v = vec.vector
    nums = [0, 1, -1, 2, Fraction(1, 2), Fraction(3, 2), Fraction(-1, 2), 0.5, 1.0, 1.5, -0.0,
            10 ** 20, 1e20, 10 ** 20 + 1, 2 ** 53, 2 ** 53 + 1, float(2 ** 53), float("inf"),
            float("-inf"), Decimal("0.5"), Decimal("1"), Decimal("-1")]
    strs = ["", "a", "A", "ab", "b", "aa", "a\x00", "é", "z", "ab\n", "中", "\U0001f600"]
    nss = [None, "a", "b", "ab"]
    names = ["a", "b", "ab"]
    kws = [kw.keyword(n, ns=ns) for ns in nss for n in names]
    syms = [sym.symbol(n, ns=ns) for ns in nss for n in names]
    vecs = [v([]), v([1]), v([2]), v([1, 2]), v([2, 1]), v([1, 1]), v([0, 3]), v([1, 2, 3]),
            v([3]), v([v([1])]), v([v([2])]), v([v([])]), v([1.0]), v([Fraction(1, 2)]),
            v([0, 0, 0])]
    svecs = [v(["a"]), v(["b"]), v(["a", "b"]), v(["b", "a"]), v([""]), v([])]
    kvecs = [v([kw.keyword("a")]), v([kw.keyword("b", ns="a")]), v([kw.keyword("a", ns="b")]),
             v([kw.keyword("a"), kw.keyword("b")]), v([])]
    return {"num": nums, "str": strs, "kw": kws, "sym": syms, "vec": vecs, "svec": svecs,
            "kvec": kvecs}


def show(x):
    if isinstance(x, Decimal):
        return f"{x}M"
    if hasattr(x, "__iter__") and not isinstance(x, str) and any(isinstance(e, Decimal) for e in x):
        return "[" + " ".join(show(e) for e in x) + "]"
    return S()["pr"](x)


def sgn(n):
    return (n > 0) - (n < 0)


# -- independent model of each family's order -----------------------------------------

def model_cmp(fam, a, b):
    """-1/0/1, or None when the statement does not prescribe the outcome"""
    if a is None or b is None:
        return (a is not None) - (b is not None)
    if fam == "num":
        if isinstance(a, float) and math.isnan(a) or isinstance(b, float) and math.isnan(b):
            return None
        def ex(x):
            if isinstance(x, float) and math.isinf(x):
                return x
            return Fraction(x)
        ea, eb = ex(a), ex(b)
        return (ea > eb) - (ea < eb)
    if fam == "str":
        ca, cb = [ord(c) for c in a], [ord(c) for c in b]
        return (ca > cb) - (ca < cb)
    if fam in ("kw", "sym"):
        if a.ns is not None and b.ns is not None:
            ta, tb = (a.ns, a.name), (b.ns, b.name)
            return (ta > tb) - (ta < tb)
        if a.ns is None and b.ns is None:
            return (a.name > b.name) - (a.name < b.name)
        return None
    if fam in ("vec", "svec", "kvec"):
        if len(a) != len(b):
            return (len(a) > len(b)) - (len(a) < len(b))
        sub = {"vec": "num", "svec": "str", "kvec": "kw"}[fam]
        for x, y in zip(a, b):
            if hasattr(x, "__len__") and not isinstance(x, str):
                r = model_cmp("vec", x, y) if hasattr(y, "__len__") and not isinstance(y, str) else None
            elif hasattr(y, "__len__") and not isinstance(y, str):
                r = None
            else:
                r = model_cmp(sub, x, y)
            if r is None:
                return None
            if r:
                return r
        return 0
    return None


def py_incomparable(a, b):
    """pairs Python itself refuses to order (documented assumption)"""
    def has(x, t):
        if isinstance(x, t):
            return True
        if hasattr(x, "__iter__") and not isinstance(x, str):
            return any(has(e, t) for e in x)
        return False
    if (has(a, Decimal) and has(b, Fraction)) or (has(a, Fraction) and has(b, Decimal)):
        return True
    # vector elements are compared with Python < : a number against a nested vector is not ordered
    def shape(x):
        if hasattr(x, "__iter__") and not isinstance(x, str):
            return tuple(shape(e) for e in x)
        return "."
    if hasattr(a, "__iter__") and not isinstance(a, str) and hasattr(b, "__iter__") and not isinstance(b, str):
        if len(a) == len(b):
            for x, y in zip(a, b):
                sx, sy = shape(x), shape(y)
                if (sx == ".") != (sy == "."):
                    return True
                if sx != "." and py_incomparable(x, y):
                    return True
    return False


def do_compare(fn, a, b):
    try:
        r = fn(a, b)
    except TypeError as e:
        return ("raise", type(e).__name__)
    if isinstance(r, bool) or not isinstance(r, int):
        raise Violation("compare-returns-non-int", detail=f"(compare {show(a)} {show(b)}) -> {r!r}")
    return ("ok", r)


def is_nan(x):
    return isinstance(x, float) and math.isnan(x)


def nontrivial_pair(fam, a, b):
    if a is None or b is None:
        return (a is None) != (b is None)
    if fam == "num":
        return type(a) is not type(b) or abs(a) > 2 ** 53
    if fam in ("kw", "sym"):
        return a.ns is not None or b.ns is not None
    if fam == "str":
        return a != b and (a.startswith(b) or b.startswith(a) or any(ord(c) > 127 or ord(c) < 32 for c in a + b))
    return len(a) != len(b) or a == b or any(hasattr(x, "__len__") for x in list(a) + list(b))


def check_pair(rec, fam, a, b, path):
    s = S()
    fn = s["compare"] if path == "fn" else s["ccompare"]
    case = {"kind": "pair", "family": fam, "a": show(a), "b": show(b), "path": path}
    rec.case(canon(case), nontrivial=nontrivial_pair(fam, a, b), cls=f"pair/{fam}", sample=case,
             sub="pairs")
    ab = do_compare(fn, a, b)
    ba = do_compare(fn, b, a)
    if ab[0] == "raise" or ba[0] == "raise":
        if py_incomparable(a, b):
            rec.count("not_mutually_comparable")
            return
        raise Violation(f"compare-raises-in-family:{fam}", case,
                        f"(compare a b) -> {ab}, (compare b a) -> {ba}: members of one family must be comparable")
    x, y = ab[1], ba[1]
    if sgn(x) != -sgn(y):
        raise Violation(f"antisymmetry:{fam}", case, f"(compare a b)={x} (compare b a)={y}")
    if is_nan(a) or is_nan(b):
        return
    e = bool(s["eq"](a, b))
    if (x == 0) != e:
        raise Violation(f"zero-iff-equal:{fam}", case, f"(compare a b)={x} but (= a b)={e}")
    m = model_cmp(fam, a, b)
    if m is not None and sgn(x) != m:
        raise Violation(f"order-model:{fam}", case, f"(compare a b)={x}, model order says {m}")


def check_triple(rec, fam, a, b, c):
    s = S()
    fn = s["compare"]
    case = {"kind": "triple", "family": fam, "a": show(a), "b": show(b), "c": show(c)}
    nt = nontrivial_pair(fam, a, b) or nontrivial_pair(fam, b, c)
    rec.case(canon(case), nontrivial=nt, cls=f"triple/{fam}", sub="triples",
             sample=case)
    rs = [do_compare(fn, a, b), do_compare(fn, b, c), do_compare(fn, a, c)]
    if any(r[0] == "raise" for r in rs):
        rec.count("triples_with_incomparable_pair")
        return
    ab, bc, ac = (sgn(r[1]) for r in rs)
    if ab <= 0 and bc <= 0:
        want_strict = ab < 0 or bc < 0
        if ac > 0 or (want_strict and ac == 0) or (not want_strict and ac != 0):
            raise Violation(f"transitivity:{fam}", case, f"sgn ab={ab} bc={bc} but ac={ac}")


COMPARATORS = ("default", "lt", "gt", "rev3")


def comparator(name):
    s = S()
    return {"default": None, "lt": s["lt"], "gt": s["gt"], "rev3": s["rev3"]}[name]


def cmp3(name, a, b):
    s = S()
    if name == "default":
        return sgn(s["compare"](a, b))
    if name == "rev3":
        return sgn(s["compare"](b, a))
    f = s[name]
    return -1 if f(a, b) else (1 if f(b, a) else 0)


def check_sort(rec, fam, items, cmpname, via):
    """items: list of python values (via='sort') or list of (key, tag) pairs (via='sort-by')"""
    s = S()
    vec = s["vec"]
    case = {"kind": "sort", "family": fam, "via": via, "cmp": cmpname,
            "items": [show(x) if via == "sort" else [show(x[0]), x[1]] for x in items]}
    keys = [x if via == "sort" else x[0] for x in items]
    has_tie = False
    try:
        has_tie = 0 in [cmp3(cmpname, keys[i], keys[j])
                        for i in range(len(keys)) for j in range(i + 1, len(keys))]
    except TypeError:
        rec.count("sort_inputs_not_comparable")
        return None
    rec.case(canon(case), nontrivial=has_tie or len(items) >= 3, cls=f"{via}/{fam}/{cmpname}",
             sample=case, sub="sorts")
    cf = comparator(cmpname)
    if via == "sort":
        coll = vec.vector(items)
        out = s["sort"](coll) if cf is None else s["sort"](cf, coll)
        out = list(out) if out is not None else []
        outkeys = out
        tags_in = [id(x) for x in items]
    else:
        elems = [vec.vector([k, t]) for k, t in items]
        coll = vec.vector(elems)
        out = s["sort_by"](s["first"], coll) if cf is None else s["sort_by"](s["first"], cf, coll)
        out = list(out) if out is not None else []
        outkeys = [e[0] for e in out]
    # permutation (by identity for sort-by elements, by multiset of printed forms for sort)
    if via == "sort":
        if sorted(map(show, out)) != sorted(map(show, items)) or len(out) != len(items):
            raise Violation(f"sort-not-permutation:{via}", case, f"output {[show(x) for x in out]}")
    else:
        if sorted(id(e) for e in out) != sorted(id(e) for e in elems):
            raise Violation(f"sort-not-permutation:{via}", case, f"output {[show(x) for x in out]}")
    for i in range(len(outkeys) - 1):
        if cmp3(cmpname, outkeys[i], outkeys[i + 1]) > 0:
            raise Violation(f"sort-not-ordered:{via}", case, f"output {[show(x) for x in out]}")
    if via == "sort-by":
        pos = {id(e): i for i, e in enumerate(elems)}
        for i in range(len(out) - 1):
            if cmp3(cmpname, outkeys[i], outkeys[i + 1]) == 0 and pos[id(out[i])] > pos[id(out[i + 1])]:
                raise Violation("sort-not-stable", case, f"output {[show(x) for x in out]}")
    return [show(x) for x in out]


def check_perm_invariance(rec, fam, subset, cmpname):
    """distinct (pairwise non-tied) elements: every permutation sorts to the same sequence"""
    first = None
    for perm in itertools.permutations(subset):
        got = check_sort(rec, fam, list(perm), cmpname, "sort")
        if got is None:
            return
        if first is None:
            first = got
        elif got != first:
            raise Violation(f"sort-depends-on-input-order:{fam}",
                            {"kind": "perm", "family": fam, "cmp": cmpname,
                             "items": [show(x) for x in perm]},
                            f"{first} vs {got}")


def pairwise_distinct(cmpname, subset):
    try:
        return all(cmp3(cmpname, a, b) != 0 for a, b in itertools.combinations(subset, 2))
    except TypeError:
        return False


def shard(i, n, tier, seed, findings):
    rec = Recorder(ID)
    fams = families()
    work = []
    for fam, uni in fams.items():
        u = list(uni) + [None]
        if fam == "num":
            u = u + [float("nan")]
        for a in u:
            for b in u:
                work.append(("pair", fam, a, b))
        u2 = [x for x in u if not is_nan(x)]
        for a in u2:
            for b in u2:
                for c in u2:
                    work.append(("triple", fam, a, b, c))
    k = 5 if tier == "quick" else 6
    nsub = 6 if tier == "quick" else 40
    for fam, uni in fams.items():
        u = list(uni) + [None]
        combos = list(itertools.combinations(range(len(u)), k))
        step = max(1, len(combos) // nsub)
        for ci in range(0, len(combos), step):
            sub = [u[j] for j in combos[(ci + seed) % len(combos)]]
            for cn in COMPARATORS:
                work.append(("perm", fam, sub, cn))
    rec.exhaustive["pairs"] = True
    rec.exhaustive["triples"] = True
    for idx, w in enumerate(work):
        if idx % n != i:
            continue
        try:
            if w[0] == "pair":
                for path in ("fn", "compiled"):
                    check_pair(rec, w[1], w[2], w[3], path)
            elif w[0] == "triple":
                check_triple(rec, *w[1:])
            else:
                fam, sub, cn = w[1:]
                if cn in ("lt", "gt") and fam != "num":
                    continue
                if cn in ("lt", "gt"):
                    sub = [x for x in sub if x is not None and not isinstance(x, Decimal)]
                if pairwise_distinct(cn, sub):
                    check_perm_invariance(rec, fam, sub, cn)
                else:
                    for perm in itertools.islice(itertools.permutations(sub), 0, 120, 7):
                        check_sort(rec, fam, list(perm), cn, "sort")
                        check_sort(rec, fam, [(x, t) for t, x in enumerate(perm)], cn, "sort-by")
        except Violation as v:
            rec.violation(v.sig, v.case, v.detail, finding=v.finding, findings=findings)

    # random longer inputs with many ties
    def strat():
        parts = []
        for fam, uni in fams.items():
            u = [x for x in list(uni) + [None]]
            parts.append(st.tuples(st.just(fam), st.lists(st.sampled_from(u), min_size=0, max_size=14),
                                   st.sampled_from(COMPARATORS if fam == "num" else ("default", "rev3")),
                                   st.sampled_from(("sort", "sort-by"))))
        return st.one_of(parts)

    def body(val):
        fam, items, cn, via = val
        if cn in ("lt", "gt"):
            items = [x for x in items if x is not None and not isinstance(x, Decimal)]
        if via == "sort":
            check_sort(rec, fam, items, cn, "sort")
        else:
            check_sort(rec, fam, [(x, t) for t, x in enumerate(items)], cn, "sort-by")

    def to_case(val):
        fam, items, cn, via = val
        return {"kind": "sort", "family": fam, "via": via, "cmp": cn, "items": [show(x) for x in items]}

    hyp.drive(body, strat(), rec=rec, findings=findings, seed=seed * 1000 + i,
              max_examples=150 if tier == "quick" else 3000, to_case=to_case)
    return rec


# -- replay ----------------------------------------------------------------------------

def _rd(text):
    return S()["ses"].eval(f"(quote {text})") if text not in ("##NaN", "##Inf", "##-Inf") else \
        S()["ses"].eval(text)


def replay(case):
    rec = Recorder(ID)
    fam = case["family"]
    if case["kind"] == "pair":
        check_pair(rec, fam, _rd(case["a"]), _rd(case["b"]), case.get("path", "fn"))
    elif case["kind"] == "triple":
        check_triple(rec, fam, _rd(case["a"]), _rd(case["b"]), _rd(case["c"]))
    elif case["kind"] == "perm":
        check_perm_invariance(rec, fam, [_rd(x) for x in case["items"]], case["cmp"])
    else:
        if case["via"] == "sort":
            check_sort(rec, fam, [_rd(x) for x in case["items"]], case["cmp"], "sort")
        else:
            items = [(_rd(x[0]), x[1]) if isinstance(x, list) else (_rd(x), t)
                     for t, x in enumerate(case["items"])]
            check_sort(rec, fam, items, case["cmp"], "sort-by")
