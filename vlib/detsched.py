"""E4 — deterministic scheduler for real Python threads.

Only one managed worker thread runs at a time.  A worker reaches a *yield point* at every `line`
event in the traced code (selected by file name / function name) and at explicit `sched.point()`
calls; there the next thread to run is taken from a *choice list* (the generated input).  Locks,
re-entrant locks and conditions created while `sched.patched()` is active are scheduler-aware
logical objects, so a thread waiting for one is simply not runnable; "no managed thread is
runnable while some are unfinished" is a deadlock (a counted, deterministic verdict), and a step
budget turns a livelock into a counted verdict as well.

Choice semantics: 0 = keep running the current thread if it can run; k>0 = switch to the
(k-1)-th other runnable thread (a *preemption* if the current one could have continued)."""
from __future__ import annotations

import sys
import threading

_RealLock = threading.Lock
_RealRLock = threading.RLock
_RealCondition = threading.Condition
_RealSemaphore = threading.Semaphore
_RealThread = threading.Thread


class SchedAbort(BaseException):
    """unwinds a worker when the run is aborted (deadlock / budget)"""


class Deadlock(Exception):
    pass


class BudgetExceeded(Exception):
    pass


class Worker:
    def __init__(self, sched, idx, fn):
        self.sched, self.idx, self.fn = sched, idx, fn
        self.sem = _RealSemaphore(0)
        self.done = False
        self.waiting = None          # callable -> True when the thread can continue
        self.timed = False           # waiting with a timeout: the scheduler may fire it
        self.result = None
        self.error = None
        self.thread = None
        self.steps = 0


class Sched:
    def __init__(self, choices, trace_filter, max_steps=6000):
        self.choices = list(choices)
        self.ci = 0
        self.trace_filter = trace_filter
        self.max_steps = max_steps
        self.workers = []
        self.current = None
        self.aborted = None
        self.steps = 0
        self.preemptions = 0
        self.switches = 0
        self.log = []                # (step, worker, event) harness events in schedule order
        self._by_ident = {}
        self.done_sem = _RealSemaphore(0)

    # ---- setup
    def spawn(self, fn):
        w = Worker(self, len(self.workers), fn)
        self.workers.append(w)
        return w

    def me(self):
        return self._by_ident.get(threading.get_ident())

    def patched(self):
        return _Patched(self)

    # ---- tracing
    def _tracer(self, frame, event, arg):
        if event != "call":
            return None
        code = frame.f_code
        if self.trace_filter(code.co_filename, code.co_name):
            return self._local
        return None

    def _local(self, frame, event, arg):
        if event == "line":
            self.point()
        return self._local

    # ---- the scheduler proper
    def runnable(self, w):
        if w.done:
            return False
        if w.waiting is None:
            return True
        return bool(w.waiting()) or w.timed

    def point(self, waiting=None, timed=False):
        """a yield point of the calling managed thread. `waiting`: predicate that must hold before the
        thread may continue; with timed=True the scheduler may also resume it to signal a time-out.
        Returns True if resumed normally, False if resumed by time-out."""
        w = self.me()
        if w is None:
            return True
        if self.aborted:
            raise SchedAbort()
        self.steps += 1
        w.steps += 1
        if self.steps > self.max_steps:
            self._abort(BudgetExceeded(f"more than {self.max_steps} scheduling steps"))
            raise SchedAbort()
        w.waiting, w.timed = waiting, timed
        while True:
            cands = [x for x in self.workers if self.runnable(x)]
            if not cands:
                self._abort(Deadlock("every unfinished thread is blocked: " +
                                     ", ".join(f"t{x.idx}" for x in self.workers if not x.done)))
                raise SchedAbort()
            c = self.choices[self.ci] if self.ci < len(self.choices) else 0
            self.ci += 1
            me_ok = w in cands
            if c == 0 and me_ok:
                nxt = w
            else:
                others = [x for x in cands if x is not w]
                if not others:
                    nxt = w
                else:
                    nxt = others[(max(c, 1) - 1) % len(others)]
                    if me_ok:
                        self.preemptions += 1
            if nxt is not w:
                self.switches += 1
                self.current = nxt
                nxt.sem.release()
                w.sem.acquire()
                if self.aborted:
                    raise SchedAbort()
                # resumed: am I allowed to go on?
            ok = w.waiting is None or bool(w.waiting())
            if ok or w.timed:
                w.waiting, timed_out = None, (not ok)
                w.timed = False
                return not timed_out
            # resumed although still blocked (should not happen): loop and pick again

    def _abort(self, exc):
        if self.aborted is None:
            self.aborted = exc
        for x in self.workers:
            x.sem.release()

    def _body(self, w):
        self._by_ident[threading.get_ident()] = w
        w.sem.acquire()
        try:
            if self.aborted:
                return
            sys.settrace(self._tracer)
            try:
                w.result = ("ok", w.fn())
            except SchedAbort:
                w.result = ("aborted", None)
            except BaseException as e:  # noqa
                w.result = ("raise", e)
        finally:
            sys.settrace(None)
            w.done = True
            # hand the baton on
            if not self.aborted:
                cands = [x for x in self.workers if self.runnable(x)]
                if cands:
                    c = self.choices[self.ci] if self.ci < len(self.choices) else 0
                    self.ci += 1
                    nxt = cands[c % len(cands)]
                    self.current = nxt
                    nxt.sem.release()
                elif any(not x.done for x in self.workers):
                    self._abort(Deadlock("every unfinished thread is blocked: " +
                                         ", ".join(f"t{x.idx}" for x in self.workers if not x.done)))
            self.done_sem.release()

    def run(self):
        """run all spawned workers to completion under the choice list. Returns None, or the
        Deadlock / BudgetExceeded instance describing why the run was aborted."""
        for w in self.workers:
            w.thread = _RealThread(target=self._body, args=(w,), daemon=True)
            w.thread.start()
        if self.workers:
            first = self.workers[(self.choices[0] if self.choices else 0) % len(self.workers)]
            self.ci = 1
            self.current = first
            first.sem.release()
        for _ in self.workers:
            self.done_sem.acquire()
        for w in self.workers:
            w.thread.join(timeout=5)
        return self.aborted

    def event(self, what):
        w = self.me()
        self.log.append((self.steps, w.idx if w else -1, what))


# ---- scheduler-aware synchronisation objects ---------------------------------------------------

class SLock:
    def __init__(self, sched, reentrant):
        self.sched, self.reentrant = sched, reentrant
        self.owner, self.count = None, 0

    def _free_for(self, who):
        return self.owner is None or (self.reentrant and self.owner is who)

    def acquire(self, blocking=True, timeout=-1):
        who = self.sched.me() or threading.get_ident()
        if not self._free_for(who):
            if not blocking:
                return False
            if isinstance(who, Worker):
                self.sched.point(waiting=lambda: self._free_for(who))
            else:
                raise RuntimeError("unmanaged thread would block on a scheduler lock")
        self.owner = who
        self.count += 1
        return True

    def release(self):
        self.count -= 1
        if self.count <= 0:
            self.owner, self.count = None, 0

    def locked(self):
        return self.owner is not None

    __enter__ = acquire

    def __exit__(self, *a):
        self.release()

    def _is_owned(self):
        who = self.sched.me() or threading.get_ident()
        return self.owner is who


class SCondition:
    def __init__(self, sched, lock=None):
        self.sched = sched
        self.lock = lock if lock is not None else SLock(sched, True)
        self.waiters = []

    def acquire(self, *a, **k):
        return self.lock.acquire(*a, **k)

    def release(self):
        return self.lock.release()

    def __enter__(self):
        return self.lock.acquire()

    def __exit__(self, *a):
        self.lock.release()

    def wait(self, timeout=None):
        who = self.sched.me()
        token = [False]
        self.waiters.append(token)
        saved = (self.lock.owner, self.lock.count)
        self.lock.owner, self.lock.count = None, 0
        if who is None:
            raise RuntimeError("unmanaged thread would wait on a scheduler condition")
        notified = self.sched.point(waiting=lambda: token[0], timed=timeout is not None)
        # remove *this* token (identity, not equality: all un-notified tokens are equal lists)
        self.waiters[:] = [t for t in self.waiters if t is not token]
        # re-acquire
        if not self.lock._free_for(who):
            self.sched.point(waiting=lambda: self.lock._free_for(who))
        self.lock.owner, self.lock.count = who, saved[1]
        return bool(notified and token[0]) or token[0]

    def wait_for(self, predicate, timeout=None):
        result = predicate()
        fired = False
        while not result:
            if fired:
                break
            ok = self.wait(timeout)
            result = predicate()
            if not ok and timeout is not None:
                fired = True
        return result

    def notify(self, n=1):
        for token in self.waiters[:n]:
            token[0] = True
        del self.waiters[:n]

    def notify_all(self):
        self.notify(len(self.waiters))


class _Patched:
    def __init__(self, sched):
        self.sched = sched

    def __enter__(self):
        s = self.sched
        threading.Lock = lambda: SLock(s, False)
        threading.RLock = lambda: SLock(s, True)
        threading.Condition = lambda lock=None: SCondition(s, lock)
        return self

    def __exit__(self, *a):
        threading.Lock, threading.RLock, threading.Condition = _RealLock, _RealRLock, _RealCondition
