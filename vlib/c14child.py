"""Child interpreter for C14: import the given namespaces (through basilisp's importer, with or without
the bytecode cache, under whatever PYTHONHASHSEED the parent set) and print a JSON snapshot of each:
public Vars (name, selected metadata, printed value of non-function values) and the results of the
namespace's `-probes` function if it has one."""
import importlib
import json
import os
import sys


def main():
    names = sys.argv[1:]
    import logging
    from basilisp import main as bmain
    bmain.init()
    logging.getLogger("basilisp").setLevel(logging.CRITICAL)
    from basilisp.lang import runtime, symbol as sym, keyword as kw
    core = runtime.Namespace.get(sym.symbol("basilisp.core"))
    pr_str = core.find(sym.symbol("pr-str")).value
    out = {"hashseed": os.environ.get("PYTHONHASHSEED"), "namespaces": {}, "errors": {}}
    for name in names:
        try:
            importlib.import_module(name.replace("-", "_"))
        except BaseException as e:  # noqa
            out["errors"][name] = f"{type(e).__name__}: {str(e)[:300]}"
            continue
        ns = runtime.Namespace.get(sym.symbol(name))
        if ns is None:
            out["errors"][name] = "namespace not registered after import"
            continue
        snap = {}
        for s, v in ns.interns.items():
            meta = v.meta
            if meta is not None and meta.val_at(kw.keyword("private")):
                priv = True
            else:
                priv = False
            m = {}
            if meta is not None:
                for k, val in meta.items():
                    kn = (k.ns + "/" if getattr(k, "ns", None) else "") + getattr(k, "name", str(k))
                    if kn in ("line", "col", "end-line", "end-col", "file", "ns", "basilisp.core/generated-python"):
                        continue
                    try:
                        m[kn] = pr_str(val) if not callable(val) else "<fn>"
                    except Exception as e:  # noqa
                        m[kn] = f"<unprintable {type(e).__name__}>"
            val = v.value if v.is_bound else "<unbound>"
            if callable(val) and not isinstance(val, (kw.Keyword,)) and not hasattr(val, "items"):
                pv = "<fn>" if not isinstance(val, type) else f"<class {val.__name__}>"
            else:
                try:
                    pv = pr_str(val)
                except Exception as e:  # noqa
                    pv = f"<unprintable {type(e).__name__}>"
                if " at 0x" in pv or "object at" in pv:
                    pv = "<object>"
            snap[s.name] = {"private": priv, "meta": m, "value": pv, "dynamic": bool(v.dynamic)}
        probes = None
        pv = ns.find(sym.symbol("-probes"))
        if pv is not None:
            try:
                probes = [pr_str(x) for x in pv.value()]
            except BaseException as e:  # noqa
                probes = [f"PROBES-RAISED {type(e).__name__}: {str(e)[:200]}"]
        out["namespaces"][name] = {"vars": snap, "probes": probes}
    sys.stdout.write("\n@@SNAPSHOT@@" + json.dumps(out, sort_keys=True) + "\n")


if __name__ == "__main__":
    main()
