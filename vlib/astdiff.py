"""E7 — translation validation of the Python-AST optimizer, rewrite by rewrite.

`explain(before, after)` returns None when `after` can be obtained from `before` using only the
rewrites the property lists (each optional, each with its side condition), else a description of
the first difference that is not such a rewrite.  It never re-implements the optimizer: an
optimizer doing *fewer* rewrites still validates."""
from __future__ import annotations

import ast

BINOPS = {"add": ast.Add, "and_": ast.BitAnd, "floordiv": ast.FloorDiv, "lshift": ast.LShift, "mod": ast.Mod,
          "mul": ast.Mult, "matmul": ast.MatMult, "or_": ast.BitOr, "pow": ast.Pow, "rshift": ast.RShift,
          "sub": ast.Sub, "truediv": ast.Div, "xor": ast.BitXor}
UNARYOPS = {"not_": ast.Not, "inv": ast.Invert, "invert": ast.Invert, "neg": ast.USub, "pos": ast.UAdd}
CMPOPS = {"lt": ast.Lt, "le": ast.LtE, "eq": ast.Eq, "ne": ast.NotEq, "gt": ast.Gt, "ge": ast.GtE,
          "is_": ast.Is, "is_not": ast.IsNot}
TERMINATORS = (ast.Return, ast.Raise, ast.Break, ast.Continue)


class Mismatch(Exception):
    def __init__(self, kind, msg):
        super().__init__(msg)
        self.kind = kind


class Differ:
    def __init__(self, operator_alias):
        self.op_alias = operator_alias
        self.rewrites = {}

    def note(self, k):
        self.rewrites[k] = self.rewrites.get(k, 0) + 1

    # ---- purity (what the generator emits for tests: names, constants, is/is not, not, and/or)
    def effect_free(self, e):
        if isinstance(e, (ast.Name, ast.Constant)):
            return True
        if isinstance(e, ast.UnaryOp) and isinstance(e.op, ast.Not):
            return self.effect_free(e.operand)
        if isinstance(e, ast.BoolOp):
            return all(self.effect_free(v) for v in e.values)
        if isinstance(e, ast.Compare):
            return all(isinstance(o, (ast.Is, ast.IsNot)) for o in e.ops) and self.effect_free(e.left) and \
                all(self.effect_free(c) for c in e.comparators)
        if isinstance(e, ast.Call) and self.is_operator_call(e) and e.func.attr in ("is_", "is_not", "not_"):
            return all(self.effect_free(a) for a in e.args)
        return False

    def is_operator_call(self, e):
        return isinstance(e, ast.Call) and isinstance(e.func, ast.Attribute) and isinstance(e.func.value, ast.Name) \
            and e.func.value.id == self.op_alias and not e.keywords

    # ---- statements
    def droppable(self, s):
        if isinstance(s, ast.Expr) and isinstance(s.value, (ast.Constant, ast.Name)):
            return "bare-constant-or-name"
        if isinstance(s, ast.Pass):
            return "pass"
        if isinstance(s, ast.If) and self.effect_free(s.test) and self.can_vanish(s.body) and self.can_vanish(s.orelse):
            return "empty-if"
        return None

    def can_vanish(self, stmts):
        for s in stmts:
            if not self.droppable(s):
                return False
        return True

    def stmts(self, bs, as_, where):
        """can `as_` be obtained from `bs`? raises Mismatch with the first irreconcilable point"""
        memo = {}
        fail = {}

        def go(i, j):
            key = (i, j)
            if key in memo:
                return memo[key]
            r = False
            if i == len(bs):
                r = j == len(as_)
                if not r:
                    fail.setdefault("x", ("extra-statement", f"{where}: optimized code has an extra statement {dump(as_[j])}"))
            else:
                b = bs[i]
                if j < len(as_):
                    try:
                        self.stmt(b, as_[j], where)
                        ok = True
                    except Mismatch as m:
                        ok = False
                        fail["x"] = (m.kind, str(m))
                    if ok:
                        if isinstance(b, TERMINATORS) and j + 1 == len(as_) and i + 1 < len(bs):
                            self.note("unreachable-after-terminator")
                            r = True
                        else:
                            r = go(i + 1, j + 1)
                if not r:
                    why = self.droppable(b)
                    if why and go(i + 1, j):
                        self.note("drop:" + why)
                        r = True
                    elif not why and "x" not in fail:
                        fail["x"] = ("statement-dropped", f"{where}: statement dropped or changed: {dump(b)}")
            memo[key] = r
            return r

        if not go(0, 0):
            kind, msg = fail.get("x", ("statement-list-differs", f"{where}: statement lists differ"))
            if kind == "extra-statement" or kind == "statement-list-differs":
                # give the most useful description: first before statement that is neither kept nor droppable
                for b in bs:
                    if not self.droppable(b) and not any(self.same_quiet(b, a, where) for a in as_):
                        kind, msg = "statement-dropped", f"{where}: statement dropped or changed: {dump(b)}"
                        break
            raise Mismatch(kind, msg)

    def same_quiet(self, b, a, where):
        saved = dict(self.rewrites)
        try:
            self.stmt(b, a, where)
            return True
        except Mismatch:
            self.rewrites = saved
            return False

    def strip_globals(self, body):
        """-> (body without Global statements at this function scope, set of declared names)"""
        names = set()

        def strip(stmts):
            out = []
            for s in stmts:
                if isinstance(s, ast.Global):
                    names.update(s.names)
                    continue
                if isinstance(s, (ast.FunctionDef, ast.AsyncFunctionDef, ast.ClassDef)):
                    out.append(s)
                    continue
                s2 = s
                for field in ("body", "orelse", "finalbody"):
                    if hasattr(s, field) and isinstance(getattr(s, field), list):
                        if s2 is s:
                            s2 = _shallow(s)
                        setattr(s2, field, strip(getattr(s, field)))
                if isinstance(s, ast.Try):
                    if s2 is s:
                        s2 = _shallow(s)
                    hs = []
                    for h in s.handlers:
                        h2 = _shallow(h)
                        h2.body = strip(h.body)
                        hs.append(h2)
                    s2.handlers = hs
                out.append(s2)
            return out
        return strip(body), names

    def function(self, b, a, where):
        if type(b) is not type(a):
            raise Mismatch("node-type-changed", f"{where}: {type(b).__name__} became {type(a).__name__}")
        for f in ("name", "returns", "decorator_list", "args"):
            self.generic(getattr(b, f), getattr(a, f), f"{where}.{f}")
        bb, bn = self.strip_globals(b.body)
        ab, an = self.strip_globals(a.body)
        if bn != an:
            raise Mismatch("global-declarations-changed", f"{where}: global names {sorted(bn)} became {sorted(an)}")
        if bn:
            self.note("global-declarations-merged")
        self.stmts(bb, ab, where + ".body")

    def stmt(self, b, a, where):
        if isinstance(b, (ast.FunctionDef, ast.AsyncFunctionDef)):
            return self.function(b, a, f"{where}/def {b.name}")
        if isinstance(b, ast.If):
            if isinstance(a, ast.If):
                saved = dict(self.rewrites)
                try:
                    self.expr(b.test, a.test, where + ".test")
                    self.stmts(b.body, a.body, where + ".if-body")
                    self.stmts(b.orelse, a.orelse, where + ".if-orelse")
                    return
                except Mismatch as first:
                    self.rewrites = saved
                    # `if t: <nothing> else: X`  ->  `if not t: X`
                    if self.can_vanish(b.body) and isinstance(a.test, ast.UnaryOp) and isinstance(a.test.op, ast.Not) \
                            and not a.orelse:
                        self.expr(b.test, a.test.operand, where + ".test")
                        self.stmts(b.orelse, a.body, where + ".if-orelse")
                        self.note("if-negated-empty-body")
                        return
                    raise first
            raise Mismatch("if-changed", f"{where}: if statement became {dump(a)}")
        if type(b) is not type(a):
            # operator.delitem(...) as an expression statement becomes a `del` statement
            if isinstance(b, ast.Expr) and isinstance(a, (ast.Expr, ast.Delete)):
                pass
            else:
                raise Mismatch("node-type-changed", f"{where}: {type(b).__name__} became {type(a).__name__}: {dump(b)} -> {dump(a)}")
        if isinstance(b, ast.Try):
            self.stmts(b.body, a.body, where + ".try-body")
            if len(b.handlers) != len(a.handlers):
                raise Mismatch("handlers-changed", f"{where}: number of except handlers changed")
            for hb, ha in zip(b.handlers, a.handlers):
                self.generic(hb.type, ha.type, where + ".handler-type")
                if hb.name != ha.name:
                    raise Mismatch("handlers-changed", f"{where}: handler name changed")
                self.stmts(hb.body, ha.body, where + ".handler")
            self.stmts(b.orelse, a.orelse, where + ".try-orelse")
            if len(a.finalbody) == 1 and isinstance(a.finalbody[0], ast.Pass) and self.can_vanish(b.finalbody):
                self.note("finally-emptied-to-pass")
            else:
                self.stmts(b.finalbody, a.finalbody, where + ".finally")
            return
        if isinstance(b, ast.Expr) and isinstance(a, ast.Delete):
            return self.expr(b.value, a, where)
        self.generic(b, a, where)

    # ---- expressions
    def expr(self, b, a, where):
        if self.is_operator_call(b) and not (isinstance(a, ast.Call) and self.is_operator_call(a)):
            return self.operator_rewrite(b, a, where)
        self.generic(b, a, where)

    def operator_rewrite(self, b, a, where):
        name = b.func.attr
        args = b.args
        if name in BINOPS and isinstance(a, ast.BinOp) and len(args) == 2:
            if not isinstance(a.op, BINOPS[name]):
                raise Mismatch("operator-meaning-changed", f"{where}: operator.{name} became {type(a.op).__name__}")
            self.expr(args[0], a.left, where + ".left")
            self.expr(args[1], a.right, where + ".right")
            return self.note("operator:" + name)
        if name in UNARYOPS and isinstance(a, ast.UnaryOp) and len(args) == 1:
            if not isinstance(a.op, UNARYOPS[name]):
                raise Mismatch("operator-meaning-changed", f"{where}: operator.{name} became {type(a.op).__name__}")
            self.expr(args[0], a.operand, where + ".operand")
            return self.note("operator:" + name)
        if name in CMPOPS and isinstance(a, ast.Compare) and len(args) == 2 and len(a.ops) == 1:
            if not isinstance(a.ops[0], CMPOPS[name]):
                raise Mismatch("operator-meaning-changed",
                               f"{where}: operator.{name}({dump(args[0])}, {dump(args[1])}) became `{type(a.ops[0]).__name__}`: not the same meaning")
            self.expr(args[0], a.left, where + ".left")
            self.expr(args[1], a.comparators[0], where + ".right")
            return self.note("operator:" + name)
        if name == "contains" and isinstance(a, ast.Compare) and len(args) == 2 and len(a.ops) == 1 and isinstance(a.ops[0], ast.In):
            # `b in a` evaluates b first: only the same order of effects if one operand is effect-free
            if not (self.effect_free(args[0]) or self.effect_free(args[1])):
                raise Mismatch("operand-order-changed", f"{where}: operator.contains with two effectful operands became `in` (operands are evaluated in the other order)")
            self.expr(args[1], a.left, where + ".item")
            self.expr(args[0], a.comparators[0], where + ".container")
            return self.note("operator:contains")
        if name == "getitem" and isinstance(a, ast.Subscript) and len(args) == 2:
            self.expr(args[0], a.value, where + ".value")
            self.expr(args[1], a.slice, where + ".slice")
            return self.note("operator:getitem")
        if name == "delitem" and isinstance(a, ast.Delete) and len(args) == 2 and len(a.targets) == 1 and isinstance(a.targets[0], ast.Subscript):
            self.expr(args[0], a.targets[0].value, where + ".value")
            self.expr(args[1], a.targets[0].slice, where + ".slice")
            return self.note("operator:delitem")
        raise Mismatch("operator-call-changed", f"{where}: operator.{name} call became {dump(a)}")

    def generic(self, b, a, where):
        if isinstance(b, ast.AST):
            if isinstance(b, ast.expr) and self.is_operator_call(b) and not (isinstance(a, ast.Call) and self.is_operator_call(a)):
                return self.operator_rewrite(b, a, where)
            if isinstance(b, (ast.FunctionDef, ast.AsyncFunctionDef)):
                return self.function(b, a, f"{where}/def {b.name}")
            if type(b) is not type(a):
                raise Mismatch("node-type-changed", f"{where}: {type(b).__name__} became {type(a).__name__}: {dump(b)} -> {dump(a)}")
            if isinstance(b, ast.stmt) and isinstance(b, (ast.If, ast.Try)):
                return self.stmt(b, a, where)
            for f in b._fields:
                vb, va = getattr(b, f, None), getattr(a, f, None)
                if isinstance(vb, list) and vb and isinstance(vb[0], ast.stmt) or (isinstance(vb, list) and f in ("body", "orelse", "finalbody") and not isinstance(b, (ast.Lambda, ast.IfExp))):
                    self.stmts(vb, va or [], f"{where}.{f}")
                else:
                    self.generic(vb, va, f"{where}.{f}")
            return
        if isinstance(b, list):
            if not isinstance(a, list) or len(a) != len(b):
                raise Mismatch("list-length-changed", f"{where}: {len(b)} elements became {len(a) if isinstance(a, list) else a}")
            for i, (x, y) in enumerate(zip(b, a)):
                self.generic(x, y, f"{where}[{i}]")
            return
        if b != a or type(b) is not type(a):
            raise Mismatch("leaf-changed", f"{where}: {b!r} became {a!r}")


def _shallow(node):
    new = type(node)()
    for f in node._fields:
        setattr(new, f, getattr(node, f, None))
    for f in getattr(node, "_attributes", ()):
        if hasattr(node, f):
            setattr(new, f, getattr(node, f))
    return new


def dump(n):
    try:
        return ast.unparse(n)[:160].replace("\n", " ; ")
    except Exception:  # noqa
        return ast.dump(n)[:160]


def explain(before: ast.Module, after: ast.Module, operator_alias: str):
    """-> (None, rewrites) if validated, else ((kind, message), rewrites)"""
    d = Differ(operator_alias)
    try:
        d.stmts(before.body, after.body, "module")
        return None, d.rewrites
    except Mismatch as m:
        return (m.kind, str(m)), d.rewrites
