"""Boot basilisp from the *current working tree* of VERIF_REPO (default /repo).

Nothing here trusts a cached artefact: basilisp.core is compiled from core.lpy by the
current compiler in this process (PYTHONDONTWRITEBYTECODE is forced), and the native
extension is rebuilt from rust/ when its sources changed since the last build we did.
"""
from __future__ import annotations

import fcntl
import hashlib
import itertools
import os
import shutil
import subprocess
import sys
import time

VERIF = os.path.dirname(os.path.dirname(os.path.abspath(__file__)))
REPO = os.environ.get("VERIF_REPO", "/repo")
WORK = os.path.join(VERIF, ".work")


class HarnessError(Exception):
    pass


def _sha_tree(paths):
    h = hashlib.sha256()
    for root in paths:
        if os.path.isfile(root):
            files = [root]
        else:
            files = []
            for d, dn, fn in os.walk(root):
                dn[:] = sorted(x for x in dn if x not in ("target", "__pycache__"))
                for f in sorted(fn):
                    files.append(os.path.join(d, f))
        for f in files:
            h.update(f.encode())
            try:
                with open(f, "rb") as fh:
                    h.update(fh.read())
            except OSError:
                pass
    return h.hexdigest()


def ensure_native(verbose=False):
    """Rebuild the Rust extension from REPO/rust if its sources differ from what the
    installed .so was built from (stamp kept in .work). Falls back to the existing .so if
    cargo is unavailable (reported, not fatal)."""
    rust = os.path.join(REPO, "rust")
    so = os.path.join(REPO, "src", "basilisp", "_lang.abi3.so")
    if not os.path.isdir(rust):
        return "no-rust-dir"
    os.makedirs(WORK, exist_ok=True)
    key = hashlib.sha256(REPO.encode()).hexdigest()[:12]
    stamp = os.path.join(WORK, f"native-{key}.stamp")
    lock = os.path.join(WORK, f"native-{key}.lock")
    with open(lock, "w") as lf:
        fcntl.flock(lf, fcntl.LOCK_EX)
        want = _sha_tree([os.path.join(rust, "src"), os.path.join(rust, "Cargo.toml"),
                          os.path.join(rust, "Cargo.lock")])
        try:
            have = open(stamp).read().strip()
        except OSError:
            have = ""
        if have == want and os.path.exists(so):
            return "fresh"
        cargo = shutil.which("cargo") or "/root/.cargo/bin/cargo"
        env = dict(os.environ, CARGO_NET_OFFLINE="true")
        try:
            r = subprocess.run([cargo, "build", "--release", "--offline"], cwd=rust, env=env,
                               stdout=subprocess.PIPE, stderr=subprocess.STDOUT, timeout=1200)
        except (OSError, subprocess.TimeoutExpired) as e:
            sys.stderr.write(f"[boot] cargo unavailable ({e}); using existing native module\n")
            return "cargo-missing"
        if r.returncode != 0:
            # a tree whose native code does not build cannot run at all
            raise HarnessError("cargo build failed:\n" + r.stdout.decode(errors="replace")[-2000:])
        built = os.path.join(rust, "target", "release", "libbasilisp_native.so")
        tmp = so + f".tmp{os.getpid()}"
        shutil.copy2(built, tmp)
        os.replace(tmp, so)
        with open(stamp, "w") as fh:
            fh.write(want)
        if verbose:
            sys.stderr.write("[boot] native extension rebuilt\n")
        return "rebuilt"


def prepare_env():
    os.environ["PYTHONDONTWRITEBYTECODE"] = "1"
    sys.dont_write_bytecode = True
    os.environ.setdefault("BASILISP_EMIT_GENERATED_PYTHON", "false")
    os.environ.setdefault("BASILISP_DO_NOT_CACHE_NAMESPACES", "true")
    src = os.path.join(REPO, "src")
    if src in sys.path:
        sys.path.remove(src)
    sys.path.insert(0, src)
    os.environ["PYTHONPATH"] = src + os.pathsep + VERIF
    deps = os.path.join(VERIF, ".deps")
    if os.path.isdir(deps) and deps not in sys.path:
        sys.path.append(deps)


_inited = False


def init():
    """Initialise basilisp in this process (≈12 s: core.lpy is compiled from source)."""
    global _inited
    if _inited:
        return
    prepare_env()
    t0 = time.time()
    import basilisp  # noqa
    if not os.path.realpath(basilisp.__file__).startswith(os.path.realpath(REPO)):
        raise HarnessError(f"basilisp imported from {basilisp.__file__}, expected under {REPO}")
    from basilisp import main as bmain
    bmain.init()
    _inited = True
    sys.stderr.write(f"[boot] basilisp initialised from {REPO} in {time.time()-t0:.1f}s\n")


_ns_counter = itertools.count()


def fresh_ns_name(prefix="vscratch"):
    return f"{prefix}.n{os.getpid()}x{next(_ns_counter)}"


class Session:
    """A scratch namespace + compiler context. eval(src) reads every form of src and
    compiles+executes each in order, returning the last value."""

    def __init__(self, ns_name=None, opts=None, refer_core=True, filename="<verif>"):
        from basilisp.lang import compiler, runtime, symbol as sym
        self.compiler = compiler
        self.runtime = runtime
        self.ns_name = ns_name or fresh_ns_name()
        self.ns_sym = sym.symbol(self.ns_name)
        self.ns = runtime.Namespace.get_or_create(self.ns_sym)
        if refer_core:
            self.ns.refer_all(runtime.Namespace.get(runtime.CORE_NS_SYM))
        sys.modules[self.ns.module.__name__] = self.ns.module
        self.opts = opts
        self.filename = filename
        self.ctx = compiler.CompilerContext(filename, opts=self._mkopts(opts))

    def _mkopts(self, opts):
        if opts is None:
            return None
        if isinstance(opts, dict):
            return self.compiler.compiler_opts(**opts)
        return opts

    def new_ctx(self, opts=None):
        self.ctx = self.compiler.CompilerContext(self.filename, opts=self._mkopts(opts))

    def read(self, src):
        from basilisp.lang import reader
        with self.runtime.ns_bindings(self.ns_name):
            return list(reader.read_str(src, resolver=self.runtime.resolve_alias))

    def eval(self, src):
        from basilisp.lang import reader
        last = None
        with self.runtime.ns_bindings(self.ns_name) as _:
            # forms are read lazily so reader macros see earlier defs (as the REPL does)
            for form in reader.read_str(src, resolver=self.runtime.resolve_alias):
                last = self.compiler.compile_and_exec_form(form, self.ctx, self.current_ns())
        return last

    def eval_form(self, form):
        with self.runtime.ns_bindings(self.ns_name):
            return self.compiler.compile_and_exec_form(form, self.ctx, self.current_ns())

    def current_ns(self):
        return self.runtime.get_current_ns()

    def intern(self, name, value, dynamic=False):
        from basilisp.lang import symbol as sym
        return self.runtime.Var.intern(self.ns, sym.symbol(name), value, dynamic=dynamic)

    def close(self):
        try:
            sys.modules.pop(self.ns.module.__name__, None)
            self.runtime.Namespace.remove(self.ns_sym)
        except Exception:
            pass


def core(name):
    from basilisp.lang import runtime, symbol as sym
    v = runtime.Var.find(sym.symbol(name, ns="basilisp.core"))
    if v is None:
        raise HarnessError(f"basilisp.core/{name} not found")
    return v.value


def core_var(name):
    from basilisp.lang import runtime, symbol as sym
    return runtime.Var.find(sym.symbol(name, ns="basilisp.core"))
