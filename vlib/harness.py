"""Shared machinery: recorder, known-findings, forked shards, evidence, replay files."""
from __future__ import annotations

import hashlib
import json
import os
import pickle
import re
import signal
import sys
import time
import traceback

from . import boot

VERIF = boot.VERIF


# --------------------------------------------------------------------------------------
# violations

class CpuBudgetExceeded(BaseException):
    """raised inside the code under test when one case has used more CPU time than any case needs:
    a BaseException so that `except Exception` in the code under test does not swallow it"""


class cpu_limit:
    """with cpu_limit(seconds): ...  -- user-mode CPU time of this process (ITIMER_VIRTUAL), so a
    starved machine does not trip it; only meaningful in the main thread of a process"""

    def __init__(self, seconds):
        self.seconds = seconds

    def __enter__(self):
        import signal

        def fire(signum, frame):
            raise CpuBudgetExceeded(f"more than {self.seconds}s of CPU time in one case")
        try:
            self.old = signal.signal(signal.SIGVTALRM, fire)
            # re-fires every second after the first expiry: an exception raised from the handler while
            # the interpreter is inside a callback that ignores exceptions (gc hooks) would otherwise be lost
            signal.setitimer(signal.ITIMER_VIRTUAL, self.seconds, 1.0)
            self.armed = True
        except ValueError:          # not the main thread
            self.armed = False
        return self

    def __exit__(self, *a):
        import signal
        if self.armed:
            signal.setitimer(signal.ITIMER_VIRTUAL, 0)
            signal.signal(signal.SIGVTALRM, self.old)
        return False


class Violation(Exception):
    """Raised by a property body when the real system deviates from the oracle.

    sig     : short root-cause signature (violation kind + discriminator), used for bucketing
    case    : JSON-serialisable description of the generated case (enough to replay)
    detail  : free text / dict: expected vs observed
    finding : id of the known finding whose *trigger* this case satisfies and whose failure
              kind this deviation matches (decided by the property module), or None
    """

    def __init__(self, sig, case=None, detail=None, finding=None):
        super().__init__(sig)
        self.sig = sig
        self.case = case
        self.detail = detail
        self.finding = finding


def canon(obj) -> str:
    try:
        return json.dumps(obj, sort_keys=True, default=repr, ensure_ascii=True)
    except Exception:
        return repr(obj)


def h8(s: str) -> bytes:
    return hashlib.blake2b(s.encode("utf-8", "surrogatepass"), digest_size=8).digest()


def repo_frame(tb) -> str | None:
    """innermost traceback frame that lies inside the repository sources"""
    root = os.path.realpath(os.path.join(boot.REPO, "src"))
    hit = None
    for fs in traceback.extract_tb(tb):
        fn = fs.filename
        if fn.startswith("<") or os.path.realpath(fn).startswith(root):
            hit = f"{os.path.basename(fn)}:{fs.name}"
    return hit


# --------------------------------------------------------------------------------------
# known findings

class Findings:
    """known-findings.txt: `finding: property=Cxx id=F-xx :: text` / `fixed: property=Cxx <commit> text`"""

    def __init__(self, path=None):
        self.path = path or os.path.join(VERIF, "known-findings.txt")
        self.open = {}   # fid -> dict(property, text)
        self.fixed = []
        if os.path.exists(self.path):
            for line in open(self.path, encoding="utf-8"):
                line = line.strip()
                if not line or line.startswith("#"):
                    continue
                m = re.match(r"finding:\s+property=(\S+)\s+id=(\S+)\s*(.*?)\s*::\s*(.*)$", line)
                if m:
                    self.open[(m.group(1), m.group(2))] = {"property": m.group(1), "attrs": m.group(3),
                                                            "text": m.group(4)}
                    continue
                m = re.match(r"fixed:\s+property=(\S+)\s+(\S+)\s+(.*)$", line)
                if m:
                    self.fixed.append({"property": m.group(1), "commit": m.group(2),
                                       "text": m.group(3)})

    def is_open(self, prop, fid):
        return (prop, fid) in self.open

    def for_property(self, prop):
        return {k[1]: v for k, v in self.open.items() if k[0] == prop}


# --------------------------------------------------------------------------------------
# recorder

class Recorder:
    MAX_SAMPLES_PER_CLASS = 2
    MAX_SAMPLES = 14

    def __init__(self, prop):
        self.prop = prop
        self.evaluations = 0
        self.nontrivial = set()        # 8-byte hashes of canonical non-trivial cases
        self.hist = {}                 # class -> count
        self.samples = {}              # class -> [sample]
        self.violations = []           # dict(sig, case, detail)
        self.excluded_known = {}       # fid -> count
        self.known_examples = {}       # fid -> first case
        self.inconclusive = 0
        self.sub = {}                  # subcheck -> evaluations
        self.extra = {}                # free-form counters
        self.exhaustive = {}           # subcheck -> bool

    # -- counting
    def case(self, key, nontrivial=False, cls=None, sample=None, sub=None):
        self.evaluations += 1
        if sub:
            self.sub[sub] = self.sub.get(sub, 0) + 1
        if nontrivial:
            self.nontrivial.add(h8(key if isinstance(key, str) else canon(key)))
        if cls is not None:
            for c in (cls if isinstance(cls, (list, tuple, set)) else [cls]):
                self.hist[c] = self.hist.get(c, 0) + 1
                if sample is not None:
                    lst = self.samples.setdefault(c, [])
                    if len(lst) < self.MAX_SAMPLES_PER_CLASS:
                        lst.append(sample)
        elif sample is not None:
            lst = self.samples.setdefault("_", [])
            if len(lst) < 6:
                lst.append(sample)

    def event(self, name, n=1):
        self.hist[name] = self.hist.get(name, 0) + n

    def count(self, name, n=1):
        self.extra[name] = self.extra.get(name, 0) + n

    def violation(self, sig, case, detail, finding=None, findings: Findings | None = None):
        """Record a deviation. Attributed to an *open* known finding → counted, not a violation."""
        if finding and findings is not None and findings.is_open(self.prop, finding):
            self.excluded_known[finding] = self.excluded_known.get(finding, 0) + 1
            self.known_examples.setdefault(finding, case)
            return False
        for v in self.violations:
            if v["sig"] == sig:
                v["count"] = v.get("count", 1) + 1
                if len(canon(case)) < len(canon(v["case"])):
                    v["case"], v["detail"] = case, detail
                return True
        self.violations.append({"sig": sig, "case": case, "detail": detail, "count": 1})
        return True

    def merge(self, o: "Recorder"):
        self.evaluations += o.evaluations
        self.nontrivial |= o.nontrivial
        for k, v in o.hist.items():
            self.hist[k] = self.hist.get(k, 0) + v
        for k, v in o.samples.items():
            lst = self.samples.setdefault(k, [])
            for s in v:
                if len(lst) < self.MAX_SAMPLES_PER_CLASS:
                    lst.append(s)
        for v in o.violations:
            for mine in self.violations:
                if mine["sig"] == v["sig"]:
                    mine["count"] = mine.get("count", 1) + v.get("count", 1)
                    if len(canon(v["case"])) < len(canon(mine["case"])):
                        mine["case"], mine["detail"] = v["case"], v["detail"]
                    break
            else:
                self.violations.append(v)
        for k, v in o.excluded_known.items():
            self.excluded_known[k] = self.excluded_known.get(k, 0) + v
        for k, v in o.known_examples.items():
            self.known_examples.setdefault(k, v)
        self.inconclusive += o.inconclusive
        for k, v in o.sub.items():
            self.sub[k] = self.sub.get(k, 0) + v
        for k, v in o.extra.items():
            if isinstance(v, (int, float)) and isinstance(self.extra.get(k, 0), (int, float)):
                self.extra[k] = self.extra.get(k, 0) + v
            else:
                self.extra.setdefault(k, v)
        for k, v in o.exhaustive.items():
            self.exhaustive[k] = self.exhaustive.get(k, True) and v

    def sample_list(self):
        out = []
        for c in sorted(self.samples):
            for s in self.samples[c]:
                out.append({"class": c, "case": s} if c != "_" else s)
                if len(out) >= self.MAX_SAMPLES:
                    return out
        return out


# --------------------------------------------------------------------------------------
# forked shards

class ShardCrash(Exception):
    pass


def run_shards(fn, nshards, *, timeout_s=None, label=""):
    """fork nshards children; child i runs fn(i, nshards) -> picklable; returns list of results.

    A child that dies without a result raises ShardCrash (→ harness error, exit 2); the
    verdict of a property never rests on a wall clock: a timeout here only means the harness
    is broken or the tree hangs, and is reported as such, not as a violation."""
    if nshards == 1 and os.environ.get("VERIF_NOFORK"):
        return [fn(0, 1)]
    kids = []
    for i in range(nshards):
        r, w = os.pipe()
        pid = os.fork()
        if pid == 0:
            os.close(r)
            code = 0
            try:
                try:
                    res = ("ok", fn(i, nshards))
                except BaseException as e:  # noqa
                    res = ("err", f"{type(e).__name__}: {e}\n{traceback.format_exc()}")
                with os.fdopen(w, "wb") as fh:
                    pickle.dump(res, fh, protocol=4)
            except BaseException:
                traceback.print_exc()
                code = 3
            finally:
                sys.stdout.flush()
                sys.stderr.flush()
                os._exit(code)
        os.close(w)
        kids.append((pid, r, i))
    results = [None] * nshards
    errors = []
    import select
    deadline = None if timeout_s is None else time.time() + timeout_s
    bufs = {r: bytearray() for _, r, _ in kids}
    open_fds = {r: (pid, i) for pid, r, i in kids}
    while open_fds:
        to = None if deadline is None else max(0.0, deadline - time.time())
        ready, _, _ = select.select(list(open_fds), [], [], to)
        if not ready:
            for r, (pid, i) in open_fds.items():
                try:
                    os.kill(pid, signal.SIGKILL)
                except OSError:
                    pass
                errors.append(f"shard {i} exceeded {timeout_s}s budget{label}")
            break
        for r in ready:
            chunk = os.read(r, 1 << 20)
            if chunk:
                bufs[r] += chunk
            else:
                pid, i = open_fds.pop(r)
                os.close(r)
                try:
                    kind, val = pickle.loads(bytes(bufs[r]))
                    if kind == "ok":
                        results[i] = val
                    else:
                        errors.append(f"shard {i}: {val}")
                except Exception as e:
                    errors.append(f"shard {i} died without result ({e})")
    for pid, _, _ in kids:
        try:
            os.waitpid(pid, 0)
        except OSError:
            pass
    if errors:
        raise ShardCrash("\n".join(errors))
    return results


# --------------------------------------------------------------------------------------
# evidence / replay files

def write_replay(prop, v):
    d = os.path.join(VERIF, "replays", prop)
    os.makedirs(d, exist_ok=True)
    body = {"property": prop, "sig": v["sig"], "case": v["case"], "detail": v["detail"]}
    txt = json.dumps(body, indent=1, sort_keys=True, default=repr, ensure_ascii=True)
    name = hashlib.sha1(canon([v["sig"], v["case"]]).encode()).hexdigest()[:12] + ".json"
    path = os.path.join(d, name)
    with open(path, "w") as fh:
        fh.write(txt + "\n")
    return path


def write_evidence(prop, tier, seed, level, rec: Recorder, rule, wall_s, assumptions,
                   extra_cov=None, n_violations=0):
    cov = {
        "evaluations": int(rec.evaluations),
        "distinct_nontrivial": int(len(rec.nontrivial)),
        "rule": rule,
        "samples": rec.sample_list() or ["<no sample recorded>"],
        "class_histogram": dict(sorted(rec.hist.items())),
        "subchecks": dict(sorted(rec.sub.items())),
        "excluded_known": dict(sorted(rec.excluded_known.items())),
        "inconclusive": rec.inconclusive,
    }
    if rec.exhaustive:
        cov["exhaustive_subchecks"] = {k: bool(v) for k, v in sorted(rec.exhaustive.items())}
    if rec.extra:
        cov["counters"] = {k: v for k, v in sorted(rec.extra.items())}
    if extra_cov:
        cov.update(extra_cov)
    ev = {
        "property_id": prop, "tier": tier, "seed": int(seed), "level": level,
        "coverage": cov, "assumptions": list(assumptions), "wall_s": round(wall_s, 2),
        "violations": int(n_violations),
    }
    d = os.path.join(VERIF, "evidence")
    os.makedirs(d, exist_ok=True)
    tmp = os.path.join(d, f".{prop}.json.tmp{os.getpid()}")
    with open(tmp, "w") as fh:
        json.dump(ev, fh, indent=1, sort_keys=False, default=repr, ensure_ascii=True)
        fh.write("\n")
    os.replace(tmp, os.path.join(d, f"{prop}.json"))
