"""E1 — program generator + reference interpreter for the special-form fragment.

AST nodes are JSON-able lists:
 ["c", v]  const: None | True | False | int | ["kw", name] | ["s", text]
 ["l", name] local    ["g", name] global var      ["q", datum] quote
 ["if", c, t, e|None] ["do", [e..]] ["let", [[n, e]..], [body..]] ["loop", [[n, e]..], [body..]]
 ["recur", [e..]] ["fn", name|None, [[params, rest|None, [body..]]..]] ["call", f, [args..]]
 ["letfn", [[name, params, [body..]]..], [body..]] ["try", [body..], [[cls, name, [body..]]..], [fin..]|None]
 ["throw", kind, msg] ["def", name, e] ["vec", [e..]] ["lst", [e..]] ["map", [[kconst, e]..]] ["set", [const..]]
 ["p", op, [args..]] primitive (total Python function interned as a Var)   ["t", k, e] effect marker

The reference interpreter shares no code with basilisp: values are plain Python data
(ints, bools, None, ("kw",n), str, ("vec",(..)), ("seq",(..)), ("map",((k,v)..)), ("set",frozenset),
Closure, ("var",n), ("exc",kind,msg)).  It has two modes: the language semantics of the statement
(every evaluation of a binding form makes fresh bindings) and, for attributing the known finding
F-01a, `pycells=True`: one variable per (function activation, binding site), which is what the
generated Python code does with loop*/let* locals inside a `while True` loop."""
from __future__ import annotations

import itertools

from hypothesis import strategies as st

SPECIAL = {"def", "if", "do", "let*", "fn*", "loop*", "quote", "recur", "throw", "try", "var", "letfn*",
           "import*", "set!", "deftype*", "reify*", "await", "yield", "catch", "finally", "fn", "let", "loop", "&"}

LOCAL_NAMES = ["a", "b", "c", "a-b", "a_b", "x?", "x__Q__", "*v*", "->x", "in", "is", "class", "list", "print",
               "None", "f'", "f__PRIME__", "e", "n", "acc", "str", "first", "self", "args", "lambda"]
GLOBAL_NAMES = ["g1", "g-two", "g3?", "*g4*"]
FN_NAMES = ["f", "g", "h", "k-fn", "k_fn", "ff"]

EXC_KINDS = ["ValueError", "KeyError", "ExInfo"]
EXC_PARENTS = {"ValueError": ["ValueError", "Exception"], "KeyError": ["KeyError", "LookupError", "Exception"],
               "ExInfo": ["ExInfo", "Exception"], "NameError": ["NameError", "Exception"]}
CATCH_CLASSES = ["ValueError", "KeyError", "LookupError", "Exception", "ExInfo"]
CATCH_SRC = {"ValueError": "python/ValueError", "KeyError": "python/KeyError", "LookupError": "python/LookupError",
             "Exception": "python/Exception", "ExInfo": "basilisp.lang.exception/ExceptionInfo"}

PRIMS = {"p+": 2, "p<": 2, "pinc": 1, "pdec": 1, "pvec": None, "peq": 2, "pnot": 1, "pnil?": 1, "pid": 1,
         "pfirst": 1, "pcount": 1, "pconj": 2, "pget": 2, "pexmsg": 1, "pcall0": 1}


# =========================================================================================
# rendering

def render_const(v):
    if v is None:
        return "nil"
    if v is True:
        return "true"
    if v is False:
        return "false"
    if isinstance(v, int):
        return str(v)
    if isinstance(v, list) and v[0] == "kw":
        return ":" + v[1]
    if isinstance(v, list) and v[0] == "s":
        return '"' + v[1].replace("\\", "\\\\").replace('"', '\\"') + '"'
    raise ValueError(v)


def render_datum(d):
    if isinstance(d, list) and d and d[0] == "sym":
        return d[1]
    if isinstance(d, list) and d and d[0] == "qlist":
        return "(" + " ".join(render_datum(x) for x in d[1]) + ")"
    if isinstance(d, list) and d and d[0] == "qvec":
        return "[" + " ".join(render_datum(x) for x in d[1]) + "]"
    return render_const(d)


def render(n):
    k = n[0]
    if k == "c":
        return render_const(n[1])
    if k in ("l", "g"):
        return n[1]
    if k == "q":
        return "(quote " + render_datum(n[1]) + ")"
    if k == "if":
        return "(if " + render(n[1]) + " " + render(n[2]) + ("" if n[3] is None else " " + render(n[3])) + ")"
    if k == "do":
        return "(do" + "".join(" " + render(x) for x in n[1]) + ")"
    if k in ("let", "loop"):
        b = " ".join(f"{nm} {render(e)}" for nm, e in n[1])
        return f"({k}* [{b}]" + "".join(" " + render(x) for x in n[2]) + ")"
    if k == "recur":
        return "(recur" + "".join(" " + render(x) for x in n[1]) + ")"
    if k == "fn":
        ar = []
        for params, rest, body in n[2]:
            ps = " ".join(params) + ((" & " + rest) if rest else "")
            ar.append(f"([{ps.strip()}]" + "".join(" " + render(x) for x in body) + ")")
        nm = (" " + n[1]) if n[1] else ""
        if len(ar) == 1:
            return f"(fn*{nm} " + ar[0][1:-1] + ")"
        return f"(fn*{nm} " + " ".join(ar) + ")"
    if k == "call":
        return "(" + render(n[1]) + "".join(" " + render(x) for x in n[2]) + ")"
    if k == "letfn":
        fs = " ".join(f"{nm} (fn* {nm} [{' '.join(ps)}]" + "".join(" " + render(x) for x in body) + ")"
                      for nm, ps, body in n[1])
        return f"(letfn* [{fs}]" + "".join(" " + render(x) for x in n[2]) + ")"
    if k == "try":
        s = "(try" + "".join(" " + render(x) for x in n[1])
        for cls, nm, body in n[2]:
            s += f" (catch {CATCH_SRC[cls]} {nm}" + "".join(" " + render(x) for x in body) + ")"
        if n[3] is not None:
            s += " (finally" + "".join(" " + render(x) for x in n[3]) + ")"
        return s + ")"
    if k == "throw":
        if n[1] == "ExInfo":
            return f'(throw (basilisp.core/ex-info "{n[2]}" {{}}))'
        return f'(throw (python/{n[1]} "{n[2]}"))'
    if k == "def":
        return f"(def {n[1]} {render(n[2])})"
    if k == "vec":
        return "[" + " ".join(render(x) for x in n[1]) + "]"
    if k == "lst":
        return "(basilisp.core/list" + "".join(" " + render(x) for x in n[1]) + ")"
    if k == "map":
        return "{" + " ".join(render_const(kk) + " " + render(v) for kk, v in n[1]) + "}"
    if k == "set":
        return "#{" + " ".join(render_const(x) for x in n[1]) + "}"
    if k == "p":
        return "(" + n[1] + "".join(" " + render(x) for x in n[2]) + ")"
    if k == "t":
        return f"(t! {n[1]} {render(n[2])})"
    raise ValueError(n)


# =========================================================================================
# reference interpreter

class Closure:
    __slots__ = ("name", "arities", "env", "site")

    def __init__(self, name, arities, env, site):
        self.name, self.arities, self.env, self.site = name, arities, env, site


class Cell:
    __slots__ = ("v", "dead", "pyname")

    def __init__(self, v=None, pyname=None):
        self.v = v
        self.dead = False
        self.pyname = pyname


_MUNGE = {"'": "__PRIME__", "+": "__PLUS__", "-": "_", "*": "__STAR__", "/": "__DIV__", ">": "__GT__", "<": "__LT__",
          "!": "__BANG__", "=": "__EQ__", "?": "__Q__", "\\": "__IDIV__", "&": "__AMP__", "$": "__DOLLAR__", "%": "__PCT__"}


def pymunge(name):
    """the Python identifier a fn parameter is compiled to (documented: parameters are munged, not
    made unique) - used only by the defect model of the known finding F-01b"""
    import builtins
    import keyword
    s = "".join(_MUNGE.get(ch, ch) for ch in name)
    if keyword.iskeyword(s) or s in builtins.__dict__:
        s += "_"
    return s


class Activation:
    __slots__ = ("cells",)

    def __init__(self):
        self.cells = {}


class ModelRaise(Exception):
    def __init__(self, kind, msg):
        self.kind, self.msg = kind, msg


class Recur(Exception):
    def __init__(self, args):
        self.args_ = args


class ModelAbort(Exception):
    pass


class State:
    def __init__(self, pycells=False, budget=50000, pymunge=False):
        self.log = []
        self.globals = {}
        self.pycells = pycells
        self.pymunge = pymunge
        self.steps = 0
        self.budget = budget


def mconst(v):
    if isinstance(v, list):
        return ("kw", v[1]) if v[0] == "kw" else v[1]
    return v


def mdatum(d):
    if isinstance(d, list) and d and d[0] == "sym":
        return ("sym", d[1])
    if isinstance(d, list) and d and d[0] == "qlist":
        return ("seq", tuple(mdatum(x) for x in d[1]))
    if isinstance(d, list) and d and d[0] == "qvec":
        return ("vec", tuple(mdatum(x) for x in d[1]))
    return mconst(d)


def truthy(v):
    return not (v is None or v is False)


def is_int(v):
    return isinstance(v, int) and not isinstance(v, bool)


def is_sequential(v):
    return isinstance(v, tuple) and v and v[0] in ("vec", "seq")


def meq(a, b):
    if isinstance(a, bool) or isinstance(b, bool) or a is None or b is None:
        return a is b
    if is_sequential(a) and is_sequential(b):
        return len(a[1]) == len(b[1]) and all(meq(x, y) for x, y in zip(a[1], b[1]))
    if isinstance(a, tuple) and isinstance(b, tuple) and a and b and a[0] == b[0] == "map":
        if len(a[1]) != len(b[1]):
            return False
        for k, v in a[1]:
            for k2, v2 in b[1]:
                if meq(k, k2):
                    if not meq(v, v2):
                        return False
                    break
            else:
                return False
        return True
    if isinstance(a, Closure) or isinstance(b, Closure):
        return a is b
    if is_int(a) and is_int(b):
        return a == b
    if type(a) is not type(b):
        return False
    return a == b


def mprim(op, args, st):
    if op == "p+":
        return args[0] + args[1] if is_int(args[0]) and is_int(args[1]) else ("kw", "nan")
    if op == "p<":
        return args[0] < args[1] if is_int(args[0]) and is_int(args[1]) else False
    if op == "pinc":
        return args[0] + 1 if is_int(args[0]) else 0
    if op == "pdec":
        return args[0] - 1 if is_int(args[0]) else 0
    if op == "pvec":
        return ("vec", tuple(args))
    if op == "peq":
        return meq(args[0], args[1])
    if op == "pnot":
        return not truthy(args[0])
    if op == "pnil?":
        return args[0] is None
    if op == "pid":
        return args[0]
    if op == "pfirst":
        return (args[0][1][0] if args[0][1] else None) if is_sequential(args[0]) else None
    if op == "pcount":
        v = args[0]
        if isinstance(v, tuple) and v and v[0] in ("vec", "seq", "map"):
            return len(v[1])
        if isinstance(v, tuple) and v and v[0] == "set":
            return len(v[1])
        return 0
    if op == "pconj":
        return ("vec", args[0][1] + (args[1],)) if isinstance(args[0], tuple) and args[0] and args[0][0] == "vec" else ("vec", (args[1],))
    if op == "pget":
        m = args[0]
        if isinstance(m, tuple) and m and m[0] == "map":
            for k, v in m[1]:
                if meq(k, args[1]):
                    return v
        return None
    if op == "pexmsg":
        e = args[0]
        return e[2] if isinstance(e, tuple) and e and e[0] == "exc" else None
    raise ValueError(op)


def lookup(env, name, st=None):
    c = env[name]
    if st is not None and st.pymunge and c.pyname is not None:
        c = env[("py", c.pyname)]
    if c.dead:
        # Python deletes the `except ... as e` name when the handler ends
        raise ModelRaise("NameError", "dead catch local")
    return c.v


def bind(env, name, value, site, act, st):
    if st.pycells and site is not None:
        cell = act.cells.get(site)
        if cell is None:
            cell = act.cells[site] = Cell()
        cell.v = value
        cell.dead = False
    else:
        cell = Cell(value)
    env = dict(env)
    env[name] = cell
    return env, cell


def ev_body(body, env, act, st):
    r = None
    for x in body:
        r = ev(x, env, act, st)
    return r


def call_closure(f, args, st):
    while True:
        n = len(args)
        chosen = None
        for ar in f.arities:
            if ar[1] is None and len(ar[0]) == n:
                chosen = ar
                break
        if chosen is None:
            for ar in f.arities:
                if ar[1] is not None and n >= len(ar[0]):
                    chosen = ar
                    break
        if chosen is None:
            raise ModelRaise("ArityError", f"{n} args")
        params, rest, body = chosen
        act = Activation()
        env = dict(f.env)
        if f.name:
            env[f.name] = Cell(f)
        for p, a in zip(params, args):
            c = env[p] = Cell(a, pymunge(p))
            if st.pymunge:
                env[("py", c.pyname)] = c
        if rest is not None:
            extra = args[len(params):]
            env[rest] = Cell(("seq", tuple(extra)) if extra else None)
            if st.pymunge:
                # the Python *vararg itself is named munge(rest); it holds the raw argument tuple
                env[("py", pymunge(rest))] = Cell(("pytuple",))
        try:
            return ev_body(body, env, act, st)
        except Recur as r:
            args = list(r.args_)
            if rest is not None:
                # recur into a variadic arity passes the rest collection as its last argument
                last = args[-1]
                args = args[:-1] + (list(last[1]) if is_sequential(last) else ([] if last is None else [last]))
            # stays in the same arity: emulate by restricting to it
            f = Closure(f.name, [chosen], f.env, f.site)
            continue


def ev(n, env, act, st):
    st.steps += 1
    if st.steps > st.budget:
        raise ModelAbort()
    k = n[0]
    if k == "c":
        return mconst(n[1])
    if k == "l":
        return lookup(env, n[1], st)
    if k == "g":
        return st.globals[n[1]]
    if k == "q":
        return mdatum(n[1])
    if k == "if":
        if truthy(ev(n[1], env, act, st)):
            return ev(n[2], env, act, st)
        return None if n[3] is None else ev(n[3], env, act, st)
    if k == "do":
        return ev_body(n[1], env, act, st)
    if k == "let":
        for i, (nm, e) in enumerate(n[1]):
            v = ev(e, env, act, st)
            env, _ = bind(env, nm, v, (id(n), i), act, st)
        return ev_body(n[2], env, act, st)
    if k == "loop":
        vals = []
        e2 = env
        for i, (nm, e) in enumerate(n[1]):
            v = ev(e, e2, act, st)
            e2, _ = bind(e2, nm, v, (id(n), i), act, st)
        while True:
            try:
                return ev_body(n[2], e2, act, st)
            except Recur as r:
                e3 = env
                # simultaneous rebinding: all values were computed before any is assigned
                for i, ((nm, _), v) in enumerate(zip(n[1], r.args_)):
                    e3, _ = bind(e3, nm, v, (id(n), i), act, st)
                # names of earlier loop locals visible to later ones were only needed for inits
                e2 = dict(e2)
                e2.update({nm: e3[nm] for nm, _ in n[1]})
    if k == "recur":
        raise Recur([ev(x, env, act, st) for x in n[1]])
    if k == "fn":
        return Closure(n[1], n[2], env, id(n))
    if k == "call":
        f = ev(n[1], env, act, st)
        args = [ev(x, env, act, st) for x in n[2]]
        if not isinstance(f, Closure):
            raise ModelAbort()  # generator bug: calling a non-function
        return call_closure(f, args, st)
    if k == "letfn":
        e2 = dict(env)
        cells = []
        for i, (nm, ps, body) in enumerate(n[1]):
            c = Cell()
            e2[nm] = c
            cells.append(c)
        for c, (nm, ps, body) in zip(cells, n[1]):
            c.v = Closure(nm, [[ps, None, body]], e2, id(body))
        return ev_body(n[2], e2, act, st)
    if k == "try":
        try:
            try:
                return ev_body(n[1], env, act, st)
            except ModelRaise as ex:
                for ci, (cls, nm, body) in enumerate(n[2]):
                    if cls in EXC_PARENTS.get(ex.kind, [ex.kind]):
                        e2, cell = bind(env, nm, ("exc", ex.kind, ex.msg), (id(n), "c", ci), act, st)
                        try:
                            return ev_body(body, e2, act, st)
                        finally:
                            if st.pycells:
                                cell.dead = True
                raise
        finally:
            if n[3] is not None:
                ev_body(n[3], env, act, st)
    if k == "throw":
        raise ModelRaise(n[1], n[2])
    if k == "def":
        v = ev(n[2], env, act, st)
        st.globals[n[1]] = v
        return ("var", n[1])
    if k == "vec":
        return ("vec", tuple(ev(x, env, act, st) for x in n[1]))
    if k == "lst":
        return ("seq", tuple(ev(x, env, act, st) for x in n[1]))
    if k == "map":
        return ("map", tuple((mconst(kk), ev(v, env, act, st)) for kk, v in n[1]))
    if k == "set":
        return ("set", frozenset(repr(mconst(x)) for x in n[1]))
    if k == "p":
        args = [ev(x, env, act, st) for x in n[2]]
        if n[1] == "pcall0":
            if not isinstance(args[0], Closure):
                return None
            return call_closure(args[0], [], st)
        return mprim(n[1], args, st)
    if k == "t":
        v = ev(n[2], env, act, st)
        st.log.append(n[1])
        return v
    raise ValueError(n)


def shape(v, depth=0):
    """comparable, printable form of a model value"""
    if isinstance(v, Closure):
        return "<fn>"
    if isinstance(v, tuple) and v:
        if v[0] in ("vec", "seq"):
            return ["seq", [shape(x) for x in v[1]]]
        if v[0] == "map":
            return ["map", sorted(([shape(a), shape(b)] for a, b in v[1]), key=repr)]
        if v[0] == "set":
            return ["set", sorted(v[1])]
        if v[0] == "kw":
            return ":" + v[1]
        if v[0] == "sym":
            return "'" + v[1]
        if v[0] == "var":
            return "#'" + v[1]
        if v[0] == "exc":
            return ["exc", v[1], v[2]]
        if v[0] == "pytuple":
            return "<tuple>"
    if isinstance(v, bool) or v is None or isinstance(v, int):
        return repr(v)
    if isinstance(v, str):
        return ["s", v]
    return repr(v)


def run_model(prog, pycells=False, pymunge=False):
    """prog = {"defs": [[name, expr]..], "main": expr} -> (outcome, log) ; outcome = ["ok", shape] | ["raise", kind]"""
    st_ = State(pycells=pycells, pymunge=pymunge)
    act = Activation()
    try:
        for nm, e in prog["defs"]:
            st_.globals[nm] = ev(e, {}, act if pycells else Activation(), st_)
        v = ev(prog["main"], {}, act, st_)
        return ["ok", shape(v)], list(st_.log)
    except ModelRaise as ex:
        return ["raise", ex.kind], list(st_.log)
    except Recur:
        raise ModelAbort()
    except RecursionError:
        raise ModelAbort()


# =========================================================================================
# running the real thing

class Real:
    """prims and the marker are plain Python functions interned in a namespace that every program
    namespace refers, so they are never inlined or compiled by the code under test"""

    def __init__(self):
        from basilisp.lang import keyword as kw, vector as vec, runtime, symbol as sym, map as lmap, set as lset
        from basilisp.lang.interfaces import ISeq, ISequential, IPersistentMap, IPersistentSet, IPersistentVector
        from basilisp.lang.exception import ExceptionInfo
        self.kw, self.vec, self.runtime, self.sym = kw, vec, runtime, sym
        self.ISeq, self.ISequential, self.IPersistentMap, self.IPersistentSet, self.IPersistentVector = \
            ISeq, ISequential, IPersistentMap, IPersistentSet, IPersistentVector
        self.ExceptionInfo = ExceptionInfo
        self.log = []
        self.ns_name = "vprims"
        self.ns = runtime.Namespace.get_or_create(sym.symbol(self.ns_name))
        nan = kw.keyword("nan")

        def is_int(x):
            return isinstance(x, int) and not isinstance(x, bool)

        def t_(k, v):
            self.log.append(k)
            return v

        def seqable(x):
            return isinstance(x, (ISeq, ISequential))

        def pfirst(x):
            if seqable(x):
                for e in x:
                    return e
            return None

        def pcount(x):
            if isinstance(x, (ISeq, ISequential, IPersistentMap, IPersistentSet)):
                return sum(1 for _ in x) if isinstance(x, ISeq) else len(x)
            return 0

        def pexmsg(e):
            if isinstance(e, ExceptionInfo):
                return e.message
            if isinstance(e, BaseException) and e.args:
                return e.args[0]
            return None

        fns = {
            "t!": t_,
            "p+": lambda a, b: a + b if is_int(a) and is_int(b) else nan,
            "p<": lambda a, b: a < b if is_int(a) and is_int(b) else False,
            "pinc": lambda a: a + 1 if is_int(a) else 0,
            "pdec": lambda a: a - 1 if is_int(a) else 0,
            "pvec": lambda *xs: vec.vector(xs),
            "peq": lambda a, b: bool(runtime.equals(a, b)),
            "pnot": lambda a: a is None or a is False,
            "pnil?": lambda a: a is None,
            "pid": lambda a: a,
            "pfirst": pfirst,
            "pcount": pcount,
            "pconj": lambda v, x: v.cons(x) if isinstance(v, IPersistentVector) else vec.vector([x]),
            "pget": lambda m, k: next((vv for kk, vv in m.items() if runtime.equals(kk, k)), None) if isinstance(m, IPersistentMap) else None,
            "pexmsg": pexmsg,
            "pcall0": lambda f: f() if callable(f) and not isinstance(f, (kw.Keyword, IPersistentMap, IPersistentSet, IPersistentVector)) else None,
        }
        for name, f in fns.items():
            runtime.Var.intern(self.ns, sym.symbol(name), f)

    def shape(self, v):
        kw = self.kw
        if isinstance(v, bool) or v is None:
            return repr(v)
        if isinstance(v, int):
            return repr(v)
        if isinstance(v, str):
            return ["s", v]
        if isinstance(v, kw.Keyword):
            return ":" + (v.ns + "/" if v.ns else "") + v.name
        if isinstance(v, self.sym.Symbol):
            return "'" + (v.ns + "/" if v.ns else "") + v.name
        if isinstance(v, self.runtime.Var):
            return "#'" + v.name.name
        if isinstance(v, self.IPersistentMap):
            return ["map", sorted(([self.shape(a), self.shape(b)] for a, b in v.items()), key=repr)]
        if isinstance(v, self.IPersistentSet):
            return ["set", sorted(repr(mconst_real(x, kw)) for x in v)]
        if isinstance(v, (self.ISeq, self.ISequential)):
            return ["seq", [self.shape(x) for x in v]]
        if isinstance(v, BaseException):
            return ["exc", exc_kind(v, self), (v.message if isinstance(v, self.ExceptionInfo) else (v.args[0] if v.args else None))]
        if callable(v):
            return "<fn>"
        return "<" + type(v).__name__ + ">"


def mconst_real(x, kw):
    if isinstance(x, kw.Keyword):
        return ("kw", x.name)
    return x


def exc_kind(e, real):
    if isinstance(e, real.ExceptionInfo):
        return "ExInfo"
    return type(e).__name__


_REAL = None


def real():
    global _REAL
    if _REAL is None:
        _REAL = Real()
    return _REAL


ALL_CONFIGS = [dict(use_var_indirection=a, inline_functions=b, generate_auto_inlines=c)
               for a in (False, True) for b in (True, False) for c in (True, False)]


def run_real(prog, config=None, warn_opts=None):
    """compile + run the rendered program in a fresh namespace -> (outcome, log)"""
    from vlib import boot
    R = real()
    opts = dict(config or {})
    opts.update(warn_opts or {})
    ses = boot.Session(opts=opts or None, refer_core=True)
    try:
        ses.ns.refer_all(R.ns)
        R.log.clear()
        try:
            for nm, e in prog["defs"]:
                ses.eval(f"(def {nm} {render(e)})")
            v = ses.eval(render(prog["main"]))
            # a lazy result is realized inside shape(); effects belong to the run
            out = ["ok", R.shape(v)]
        except BaseException as e:  # noqa
            if isinstance(e, (KeyboardInterrupt, SystemExit, MemoryError)):
                raise
            out = ["raise", classify_real_exception(e, R)]
        return out, list(R.log)
    finally:
        ses.close()


def classify_real_exception(e, R):
    from basilisp.lang.compiler.exception import CompilerException
    from basilisp.lang import reader
    if isinstance(e, CompilerException):
        inner = e.__cause__
        return "COMPILE:" + (type(inner).__name__ if inner is not None else str(getattr(e, "msg", ""))[:80])
    if isinstance(e, reader.SyntaxError):
        return "READ:" + str(e)[:60]
    if isinstance(e, SyntaxError):
        return "PYSYNTAX:" + str(e)[:60]
    return exc_kind(e, R)


# =========================================================================================
# contexts (metamorphic): where the main form sits

CONTEXTS = ["top", "fn-body", "stmt", "call-arg", "let-init", "if-test", "loop-body", "vec-elem", "try-body"]


def in_context(main, ctx):
    if ctx == "top":
        return main
    if ctx == "fn-body":
        return ["call", ["fn", None, [[[], None, [main]]]], []]
    if ctx == "stmt":
        return ["do", [main, ["c", 7]]]
    if ctx == "call-arg":
        return ["p", "pvec", [["c", 1], main, ["c", 2]]]
    if ctx == "let-init":
        return ["let", [["ctx-v", main]], [["l", "ctx-v"]]]
    if ctx == "if-test":
        return ["if", main, ["c", ["kw", "t"]], ["c", ["kw", "f"]]]
    if ctx == "loop-body":
        return ["loop", [["ctx-i", ["c", 0]]], [["if", ["p", "p<", [["l", "ctx-i"], ["c", 1]]],
                                                 ["recur", [["p", "pinc", [["l", "ctx-i"]]]]], main]]]
    if ctx == "vec-elem":
        return ["vec", [["c", 0], main]]
    if ctx == "try-body":
        return ["try", [main], [], [["c", None]]]
    raise ValueError(ctx)


# =========================================================================================
# Hypothesis generator (scope tracking)

class G:
    """one generation run; `draw` comes from st.composite"""

    def __init__(self, draw, markers=False, max_depth=5, avoid=frozenset()):
        self.draw = draw
        self.markers = markers
        self.max_depth = max_depth
        self.k = itertools.count(1)
        self.avoid = avoid      # generator classes switched off (finding-avoiding mode)
        self.globals = []       # names def'ed so far (top-level)
        self.features = set()

    def pick(self, xs):
        return self.draw(st.sampled_from(list(xs)))

    def chance(self, p):
        return self.draw(st.integers(0, 99)) < p

    def name(self):
        return self.pick(LOCAL_NAMES)

    def const(self):
        return ["c", self.draw(st.one_of(
            st.sampled_from([None, True, False, 0, 1, 2, ["kw", "a"], ["kw", "b"], ["s", "x"], ["s", ""]]),
            st.integers(-3, 9)))]

    def mark(self, e):
        if self.markers and self.chance(45):
            return ["t", next(self.k), e]
        return e

    # scope: dict name -> ("val",) | ("fn", [arity specs]) ; arity spec = n (fixed) or ("v", n)
    def expr(self, scope, depth, tail=None, infn=False):
        """tail: None or ("loop"|"fn", nparams, counter_name, limit) when a recur here is legal"""
        e = self._expr(scope, depth, tail, infn)
        if e[0] in ("recur",):
            return e
        return self.mark(e) if not contains_recur_at_tail(e) else e

    def _expr(self, scope, depth, tail, infn):
        d = self.draw
        if depth >= self.max_depth:
            return self.leaf(scope)
        choices = ["leaf", "leaf", "if", "do", "let", "call", "prim", "prim", "vec", "try", "loop", "fncall",
                   "letfn", "closure-loop", "coll", "throw", "def", "quote", "fnrecur", "stmt-if", "let-shadow", "swap-loop"]
        if not self.globals:
            choices = [c for c in choices]
        c = self.pick(choices)
        self.features.add(c)
        if c == "leaf":
            return self.leaf(scope)
        if c == "if":
            two = self.chance(15)
            return ["if", self.expr(scope, depth + 1), self.expr(scope, depth + 1, tail, infn),
                    None if two else self.expr(scope, depth + 1, tail, infn)]
        if c == "do":
            n = d(st.integers(1, 3))
            return ["do", [self.expr(scope, depth + 1) for _ in range(n - 1)] + [self.expr(scope, depth + 1, tail, infn)]]
        if c == "let":
            n = d(st.integers(1, 3))
            sc = dict(scope)
            bs = []
            for _ in range(n):
                nm = self.name()
                if self.chance(25):
                    f, spec = self.fn_literal(sc, depth + 1)
                    bs.append([nm, f])
                    sc[nm] = ("fn", spec)
                else:
                    bs.append([nm, self.expr(sc, depth + 1)])
                    sc[nm] = ("val",)
            nb = d(st.integers(1, 2))
            return ["let", bs, [self.expr(sc, depth + 1) for _ in range(nb - 1)] + [self.expr(sc, depth + 1, tail, infn)]]
        if c in ("call", "fncall"):
            return self.call(scope, depth)
        if c == "prim":
            op = self.pick(["p+", "p<", "pinc", "pdec", "pvec", "peq", "pnot", "pnil?", "pid", "pfirst", "pcount", "pconj", "pget"])
            ar = PRIMS[op]
            n = ar if ar is not None else d(st.integers(0, 3))
            return ["p", op, [self.expr(scope, depth + 1) for _ in range(n)]]
        if c == "vec":
            return ["vec", [self.expr(scope, depth + 1) for _ in range(d(st.integers(0, 3)))]]
        if c == "coll":
            kind = self.pick(["lst", "map", "set"])
            if kind == "lst":
                return ["lst", [self.expr(scope, depth + 1) for _ in range(d(st.integers(0, 3)))]]
            if kind == "map":
                ks = d(st.lists(st.sampled_from([["kw", "a"], ["kw", "b"], 1, ["s", "k"]]), max_size=3, unique_by=repr))
                return ["map", [[k, self.expr(scope, depth + 1)] for k in ks]]
            return ["set", d(st.lists(st.sampled_from([["kw", "a"], 1, 2, ["s", "k"], None]), max_size=3, unique_by=repr))]
        if c == "quote":
            return ["q", self.datum(2)]
        if c == "try":
            return self.try_(scope, depth, tail, infn)
        if c == "throw":
            return ["throw", self.pick(EXC_KINDS), self.pick(["m1", "m2"])]
        if c == "loop":
            return self.loop(scope, depth, closure=False)
        if c == "closure-loop":
            if "closure-loop" in self.avoid:
                return self.loop(scope, depth, closure=False)
            return self.loop(scope, depth, closure=True)
        if c == "letfn":
            return self.letfn(scope, depth, tail, infn)
        if c == "fnrecur":
            return self.fnrecur(scope, depth)
        if c == "stmt-if":
            return self.stmt_if(scope, depth, tail, infn)
        if c == "let-shadow":
            return self.let_shadow(scope, depth)
        if c == "swap-loop":
            return self.swap_loop(scope, depth)
        if c == "def":
            nm = self.pick(GLOBAL_NAMES)
            if nm not in self.globals:
                return self.leaf(scope)
            # redefinition in statement position, then read
            return ["do", [["def", nm, self.expr(scope, depth + 1)], ["g", nm]]]
        return self.leaf(scope)

    def datum(self, depth):
        d = self.draw
        if depth == 0 or self.chance(50):
            return d(st.sampled_from([1, None, True, ["kw", "a"], ["s", "q"], ["sym", "a-b"], ["sym", "if"], ["sym", "x?"]]))
        kind = self.pick(["qlist", "qvec"])
        return [kind, [self.datum(depth - 1) for _ in range(d(st.integers(0, 3)))]]

    def leaf(self, scope):
        vals = [n for n, k in scope.items() if k[0] == "val"]
        opts = ["const"]
        if vals:
            opts += ["local", "local"]
        if self.globals:
            opts.append("global")
        if scope:
            opts.append("anylocal")
        c = self.pick(opts)
        if c == "local":
            return ["l", self.pick(vals)]
        if c == "anylocal":
            return ["l", self.pick(list(scope))]
        if c == "global":
            return ["g", self.pick(self.globals)]
        return self.const()

    def fn_literal(self, scope, depth, name=None):
        """-> (fn node, arity spec list)"""
        d = self.draw
        multi = self.chance(25)
        counts = sorted(d(st.lists(st.integers(0, 3), min_size=1, max_size=3 if multi else 1, unique=True)))
        variadic = self.chance(20)
        name = name if name is not None else (self.pick(FN_NAMES) if self.chance(30) else None)
        arities, spec = [], []
        for i, n in enumerate(counts):
            sc = dict(scope)
            params = []
            for _ in range(n):
                # parameters of one arity get distinct names (the language requires it)
                nm = self.pick([x for x in LOCAL_NAMES if x not in params])
                params.append(nm)
                sc[nm] = ("val",)
            rest = None
            if variadic and i == len(counts) - 1:
                rest = self.pick([x for x in LOCAL_NAMES if x not in params])
                sc[rest] = ("val",)
            if name:
                sc[name] = ("fn", None)  # arity spec filled below
            nb = d(st.integers(1, 2))
            body = [self.expr(sc, depth + 1, None, True) for _ in range(nb)]
            arities.append([params, rest, body])
            spec.append(("v", n) if rest else n)
        if name:
            # self reference is only *mentioned* (as a value) in bodies; no self calls (termination)
            pass
        return ["fn", name, arities], spec

    def args_for(self, spec, scope, depth):
        ar = self.pick(spec)
        if isinstance(ar, tuple):
            n = ar[1] + self.draw(st.integers(0, 2))
        else:
            n = ar
        return [self.expr(scope, depth + 1) for _ in range(n)]

    def call(self, scope, depth):
        fns = [(n, k[1]) for n, k in scope.items() if k[0] == "fn" and k[1]]
        if fns and self.chance(50):
            nm, spec = self.pick(fns)
            return ["call", ["l", nm], self.args_for(spec, scope, depth)]
        f, spec = self.fn_literal(scope, depth + 1)
        fexpr = f
        if self.chance(20):
            fexpr = ["if", self.expr(scope, depth + 2), f, f]
        elif self.chance(15):
            fexpr = ["do", [self.expr(scope, depth + 2), f]]
        return ["call", fexpr, self.args_for(spec, scope, depth)]

    def try_(self, scope, depth, tail, infn):
        d = self.draw
        body = [self.expr(scope, depth + 1) for _ in range(d(st.integers(1, 2)))]
        if self.chance(50):
            body.insert(d(st.integers(0, len(body))), ["throw", self.pick(EXC_KINDS), self.pick(["m1", "m2"])])
        catches = []
        for cls in d(st.lists(st.sampled_from(CATCH_CLASSES), max_size=2, unique=True)):
            nm = self.name()
            sc = dict(scope)
            sc[nm] = ("val",)
            cb = [self.expr(sc, depth + 1)]
            if self.chance(30):
                cb = [["p", "pexmsg", [["l", nm]]]]
            elif self.chance(20) and "catch-closure" not in self.avoid:
                self.features.add("catch-closure")
                cb = [["fn", None, [[[], None, [["p", "pexmsg", [["l", nm]]]]]]]]
            catches.append([cls, nm, cb])
        fin = None
        if self.chance(45):
            fin = [self.expr(scope, depth + 1)]
        return ["try", body, catches, fin]

    def loop(self, scope, depth, closure):
        d = self.draw
        cn = self.pick(["i", "n", "a-b", "x?"])
        limit = d(st.integers(0, 3))
        sc = dict(scope)
        bs = [[cn, ["c", 0]]]
        sc[cn] = ("val",)
        extra = []
        for _ in range(d(st.integers(0, 2))):
            nm = self.pick([x for x in LOCAL_NAMES if x != cn and x not in extra])
            extra.append(nm)
            bs.append([nm, ["vec", []] if closure and not extra[:-1] else self.expr(sc, depth + 1)])
            sc[nm] = ("val",)
        if closure and not extra:
            extra.append("acc")
            bs.append(["acc", ["vec", []]])
            sc["acc"] = ("val",)
        rec_args = [["p", "pinc", [["l", cn]]]]
        for j, nm in enumerate(extra):
            if closure and j == 0:
                inner = self.expr(sc, depth + 2)
                captured = self.pick([cn] + extra)
                f = ["fn", None, [[[], None, [["p", "pvec", [["l", captured], inner]]]]]]
                if self.chance(40):
                    ln = self.name()
                    f = ["let", [[ln, ["l", captured]]], [["fn", None, [[[], None, [["l", ln]]]]]]]
                rec_args.append(["p", "pconj", [["l", nm], f]])
            else:
                rec_args.append(self.expr(sc, depth + 2))
        self.features.add("closure-in-loop" if closure else "plain-loop")
        if closure:
            # call the first collected closure after the loop has finished rebinding its locals
            fin = ["p", "pvec", [["p", "pcall0", [["p", "pfirst", [["l", extra[0]]]]]], ["p", "pcount", [["l", extra[0]]]]]]
        else:
            fin = self.expr(sc, depth + 1)
        rec = ["recur", rec_args]
        wrap = self.pick(["plain", "do", "let"])
        if wrap == "do":
            rec = ["do", [self.expr(sc, depth + 2), rec]]
        elif wrap == "let":
            ln = self.pick([x for x in LOCAL_NAMES if x != cn and x not in extra])
            rec = ["let", [[ln, self.expr(sc, depth + 2)]], [rec]]
        body = ["if", ["p", "p<", [["l", cn], ["c", limit]]], rec, fin]
        return ["loop", bs, [body]]

    def stmt_if(self, scope, depth, tail, infn):
        """a one-armed `if` in statement position whose test is logically true but false-like in Python
        (0, "", []), and whose branch has an effect (throw / def)"""
        test = self.pick([["c", 0], ["c", ["s", ""]], ["vec", []], ["p", "pdec", [["c", 1]]], ["c", 0], ["q", ["qlist", []]]])
        self.features.add("stmt-if")
        if self.globals and self.chance(50):
            nm = self.pick(self.globals)
            return ["do", [["if", test, ["def", nm, self.expr(scope, depth + 1)], None], ["g", nm]]]
        return ["do", [["if", test, ["throw", self.pick(EXC_KINDS), self.pick(["m1", "m2"])], None], self.expr(scope, depth + 1, tail, infn)]]

    def let_shadow(self, scope, depth):
        """(let [x e1 f (fn [] x) x e2] [(f) x]): a name bound twice in one binding vector, with a closure over the
        first binding created in between and called after the second"""
        x = self.name()
        f = self.pick([n for n in LOCAL_NAMES if n != x])
        sc = dict(scope)
        e1 = self.expr(sc, depth + 1)
        sc[x] = ("val",)
        fn = ["fn", None, [[[], None, [["l", x]]]]]
        if self.chance(30):
            fn = ["fn", None, [[[], None, [["p", "pvec", [["l", x], self.expr(sc, depth + 2)]]]]]]
        sc2 = dict(sc)
        sc2[f] = ("fn", [0])
        e2 = self.expr(sc2, depth + 1)
        self.features.add("let-shadow")
        return ["let", [[x, e1], [f, fn], [x, e2]], [["vec", [["call", ["l", f], []], ["l", x]]]]]

    def swap_loop(self, scope, depth):
        """a loop whose recur arguments are all bare locals or constants and permute the loop locals:
        (loop [a e1 b e2 i 0 n 1 k 2] (if (peq i ITERS) [a b ..] (recur b a n k k)))"""
        d = self.draw
        pool = [n for n in LOCAL_NAMES if n not in ("i", "n", "k")]
        a = self.pick(pool)
        b = self.pick([n for n in pool if n != a])
        iters = d(st.integers(1, 2))
        sc = dict(scope)
        bs = [[a, self.expr(sc, depth + 1)]]
        sc[a] = ("val",)
        bs.append([b, self.expr(sc, depth + 1)])
        sc[b] = ("val",)
        bs += [["i", ["c", 0]], ["n", ["c", 1]], ["k", ["c", 2]]]
        for nm in ("i", "n", "k"):
            sc[nm] = ("val",)
        first, second = self.pick([(["l", b], ["l", a]), (["l", b], ["l", a]), (["l", b], ["l", b]), (["l", b], ["c", 7]), (["c", 7], ["l", a])])
        rec = ["recur", [first, second, ["l", "n"], ["l", "k"], ["l", "k"]]]
        fin = ["vec", [["l", a], ["l", b], ["l", "i"]]]
        self.features.add("swap-loop")
        return ["loop", bs, [["if", ["p", "peq", [["l", "i"], ["c", iters]]], fin, rec]]]

    def fnrecur(self, scope, depth):
        """((fn nm [i acc] (if (p< i L) (recur (pinc i) e) r)) 0 init): recur to a fn arity"""
        d = self.draw
        cn, an = self.pick([("i", "acc"), ("a-b", "a_b2"), ("x?", "in")])
        limit = d(st.integers(0, 3))
        sc = dict(scope)
        sc[cn] = ("val",)
        sc[an] = ("val",)
        nm = self.pick(FN_NAMES) if self.chance(50) else None
        if nm:
            sc[nm] = ("fn", None)
        step = self.expr(sc, depth + 2)
        rec = ["recur", [["p", "pinc", [["l", cn]]], step]]
        w = self.pick(["plain", "do", "let"])
        if w == "do":
            rec = ["do", [self.expr(sc, depth + 2), rec]]
        elif w == "let":
            ln = self.pick([x for x in LOCAL_NAMES if x not in (cn, an)])
            rec = ["let", [[ln, self.expr(sc, depth + 2)]], [rec]]
        body = ["if", ["p", "p<", [["l", cn], ["c", limit]]], rec, self.expr(sc, depth + 1)]
        f = ["fn", nm, [[[cn, an], None, [body]]]]
        self.features.add("fn-recur")
        return ["call", f, [["c", 0], self.expr(scope, depth + 1)]]

    def letfn(self, scope, depth, tail, infn):
        d = self.draw
        names = d(st.lists(st.sampled_from(FN_NAMES), min_size=1, max_size=2, unique=True))
        sc = dict(scope)
        specs = {}
        for nm in names:
            specs[nm] = d(st.integers(0, 2))
            sc[nm] = ("fn", [specs[nm]])
        fns = []
        for idx, nm in enumerate(names):
            s2 = dict(sc)
            # termination: a letfn function may only call functions that come later in the list
            for other in names[: idx + 1]:
                s2[other] = ("fn", None)
            ps = []
            for _ in range(specs[nm]):
                p = self.pick([x for x in LOCAL_NAMES if x not in ps])
                ps.append(p)
                s2[p] = ("val",)
            fns.append([nm, ps, [self.expr(s2, depth + 1, None, True)]])
        return ["letfn", fns, [self.expr(sc, depth + 1, tail, infn)]]


def contains_recur_at_tail(e):
    k = e[0]
    if k == "recur":
        return True
    if k == "if":
        return contains_recur_at_tail(e[2]) or (e[3] is not None and contains_recur_at_tail(e[3]))
    if k == "do":
        return bool(e[1]) and contains_recur_at_tail(e[1][-1])
    if k in ("let",):
        return bool(e[2]) and contains_recur_at_tail(e[2][-1])
    return False


def program_strategy(markers=False, max_depth=5, avoid=frozenset()):
    @st.composite
    def prog(draw):
        g = G(draw, markers=markers, max_depth=max_depth, avoid=avoid)
        defs = []
        for nm in draw(st.lists(st.sampled_from(GLOBAL_NAMES), max_size=2, unique=True)):
            if g.chance(40):
                f, spec = g.fn_literal({}, 2)
                defs.append([nm, f])
            else:
                defs.append([nm, g.expr({}, 2)])
            g.globals.append(nm)
        main = g.expr({}, 0)
        return {"defs": defs, "main": main}
    return prog()


def node_kinds(n, acc=None, depth=0):
    """(set of node kinds, max nesting depth of special forms)"""
    acc = acc if acc is not None else {"kinds": set(), "depth": 0}
    if not isinstance(n, list) or not n or not isinstance(n[0], str):
        return acc
    k = n[0]
    special = k in ("if", "do", "let", "loop", "fn", "letfn", "try", "throw", "def", "call", "recur", "q")
    if special:
        acc["kinds"].add(k)
        depth += 1
        acc["depth"] = max(acc["depth"], depth)
    for x in n[1:]:
        if isinstance(x, list):
            for y in (x if (x and isinstance(x[0], list)) else [x]):
                walk_any(y, acc, depth)
    return acc


def walk_any(x, acc, depth):
    if isinstance(x, list) and x and isinstance(x[0], str) and x[0] in (
            "c", "l", "g", "q", "if", "do", "let", "loop", "recur", "fn", "call", "letfn", "try", "throw", "def",
            "vec", "lst", "map", "set", "p", "t"):
        node_kinds(x, acc, depth)
    elif isinstance(x, list):
        for y in x:
            walk_any(y, acc, depth)
