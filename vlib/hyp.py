"""Hypothesis driver: seeded, no database, no deadline; collects failures by root-cause
signature, lets Hypothesis shrink within a *counted* budget, then excludes that signature
and searches on (so one shallow defect does not end the campaign)."""
from __future__ import annotations

import sys
import traceback

import hypothesis
from hypothesis import HealthCheck, Phase, given, seed as hseed, settings
from hypothesis.errors import HypothesisException

from .harness import Violation, canon, repo_frame, Recorder, Findings


class HarnessBug(Exception):
    pass


def classify_exception(e, case):
    """An exception escaping a property body: if basilisp code is on the traceback it is the
    system under test misbehaving (reported as a violation with the innermost repo frame as
    signature); otherwise it is a bug in the harness."""
    fr = repo_frame(e.__traceback__)
    if fr is None:
        return None
    return Violation(f"unexpected-exception:{type(e).__name__}@{fr}", case=case,
                     detail="".join(traceback.format_exception(type(e), e, e.__traceback__))[-1500:])


def drive(body, strategy, *, rec: Recorder, findings: Findings, seed: int, max_examples: int,
          shrink_budget: int = 300, max_sigs: int = 6, to_case=None, stateful_steps=None, shrink: bool = True):
    """body(value) runs one generated case; it counts the case on `rec` itself and raises
    Violation on deviation (with .finding set when it satisfies a known-finding trigger).

    Returns nothing; violations end up in rec.violations (minimal case per signature)."""
    excluded = set()
    for rnd in range(max_sigs):
        failures = {}  # sig -> (size, Violation)
        st = {"after_fail": 0, "failed_keys": set()}

        def wrapped(value):
            if failures:
                st["after_fail"] += 1
                if st["after_fail"] > shrink_budget:
                    if canon(to_case(value) if to_case else value) not in st["failed_keys"]:
                        return
            try:
                body(value)
            except Violation as v:
                pass_v = v
            except HypothesisException:
                raise
            except Exception as e:  # noqa
                pass_v = classify_exception(e, to_case(value) if to_case else value)
                if pass_v is None:
                    raise HarnessBug(f"{type(e).__name__}: {e}\n{traceback.format_exc()}") from e
            else:
                return
            v = pass_v
            if v.case is None:
                v.case = to_case(value) if to_case else value
            if v.finding and findings.is_open(rec.prop, v.finding):
                rec.violation(v.sig, v.case, v.detail, finding=v.finding, findings=findings)
                return
            if v.sig in excluded:
                rec.count("excluded_after_report")
                return
            size = len(canon(v.case))
            old = failures.get(v.sig)
            if old is None or size < old[0]:
                failures[v.sig] = (size, v)
            st["failed_keys"].add(canon(to_case(value) if to_case else value))
            if getattr(v, "expensive", False):
                # e.g. a case that only ends through the CPU watchdog: do not pay for it hundreds of times while shrinking
                st["after_fail"] = shrink_budget + 1
            raise v

        # very expensive cases (fresh interpreters) are reported unshrunk: the generated case is small
        phases = [Phase.explicit, Phase.generate] + ([Phase.shrink] if shrink else [])
        test = given(strategy)(wrapped)
        test = settings(max_examples=max_examples, database=None, deadline=None,
                        derandomize=False, report_multiple_bugs=False, phases=phases,
                        suppress_health_check=[HealthCheck.too_slow, HealthCheck.data_too_large, HealthCheck.large_base_example], print_blob=False)(test)
        test = hseed(seed * 7919 + rnd)(test)
        try:
            test()
        except Violation:
            pass
        except HarnessBug:
            raise
        except HypothesisException as e:
            if not failures:
                raise HarnessBug(f"hypothesis: {type(e).__name__}: {e}") from e
        except BaseException as e:
            if not failures:
                raise
        if not failures:
            return
        for sig, (_, v) in failures.items():
            rec.violation(sig, v.case, v.detail)
            excluded.add(sig)
    rec.count("stopped_at_max_signatures")
