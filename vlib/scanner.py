"""E6 — an independent pushdown scanner for Lisp text (shares no code with basilisp's reader).

scan(text) -> Verdict for a *sub-grammar it knows exactly*:
  delimiters ( ) [ ] { } #{ #( , strings "..." with the documented backslash escapes, line comments,
  whitespace (space, tab, newlines, comma), prefixes ' ` @ ~ ~@ ^ #' #_ , one-character literals
  \\x, and plain atoms (simple words, keywords, small integers).
Verdict.kind:
  "complete"    every opened form was closed and no prefix is waiting for its form
  "incomplete"  text ends inside a string, inside an open collection, or right after a prefix
                (quote, deref, unquote, metadata, var) that still owes a form
  "mismatch"    a closing delimiter does not match the innermost open one (or nothing is open)
  "unknown"     something outside the sub-grammar, or something malformed for another reason (odd
                map, nested #(), bad escape ...), was met: the reader's answer is not predicted
"""
from __future__ import annotations

WS = " \t\n\r\f\v,"
OPEN = {"(": ")", "[": "]", "{": "}"}
CLOSE = {")", "]", "}"}
TERMINATORS = set(WS) | set("()[]{}\";") | {""}


class Verdict:
    __slots__ = ("kind", "why", "pos")

    def __init__(self, kind, why="", pos=None):
        self.kind, self.why, self.pos = kind, why, pos

    def __repr__(self):
        return f"<{self.kind} {self.why} @{self.pos}>"


class _Coll:
    __slots__ = ("closer", "kind", "count", "bad", "keys")

    def __init__(self, closer, kind):
        self.closer, self.kind, self.count, self.bad, self.keys = closer, kind, 0, False, set()


class _Prefix:
    __slots__ = ("owed", "discard", "kind")

    def __init__(self, owed, discard=False, kind="other"):
        self.owed, self.discard, self.kind = owed, discard, kind


def scan(text: str) -> Verdict:
    stack = []
    i, n = 0, len(text)

    abort = []

    def form_done(tok=None, metaable=True):
        """a complete form was just read: satisfy pending prefixes (innermost first), then count it as
        an element of the enclosing collection (tok: the form's text when it is a plain atom; metaable:
        whether the form can carry metadata - collections and symbols can, other atoms cannot)"""
        while stack and isinstance(stack[-1], _Prefix):
            top = stack[-1]
            top.owed -= 1
            if top.owed > 0:
                return
            stack.pop()
            if top.kind == "meta" and not metaable:
                # the reader rejects this right here, whatever follows
                abort.append(Verdict("unknown", "metadata on a form that cannot carry it", i))
                return
            tok, metaable = None, True
            if top.discard:
                return      # a discarded form is not a form for whatever encloses it
        if stack and isinstance(stack[-1], _Coll):
            top = stack[-1]
            if top.kind == "rcond" and top.count % 2 == 0 and not (tok and tok.startswith(":") and len(tok) > 1):
                top.bad = True      # reader-conditional features must be keywords
            if top.kind == "rcond" and top.count % 2 == 0:
                if tok in top.keys:
                    top.bad = True  # ... and distinct
                top.keys.add(tok)
            top.count += 1

    while i < n:
        c = text[i]
        if c in WS:
            i += 1
            continue
        if c == ";":
            while i < n and text[i] not in "\n\r":
                i += 1
            continue
        if c == '"':
            j = i + 1
            bad_escape = False
            closed = False
            while j < n:
                ch = text[j]
                if ch == "\\":
                    if j + 1 < n and text[j + 1] not in '"\\abfnrtv':
                        bad_escape = True
                    j += 2
                    continue
                if ch == '"':
                    closed = True
                    break
                j += 1
            if bad_escape:
                return Verdict("unknown", "string escape", i)
            if not closed:
                return Verdict("incomplete", "inside string", i)
            i = j + 1
            form_done(metaable=False)
            if abort:
                return abort[0]
            continue
        if c in OPEN:
            stack.append(_Coll(OPEN[c], "map" if c == "{" else "seq"))
            i += 1
            continue
        if c in CLOSE:
            if stack and isinstance(stack[-1], _Prefix):
                return Verdict("unknown", "closer right after a prefix", i)
            if not stack or stack[-1].closer != c:
                return Verdict("mismatch", f"unexpected {c}", i)
            top = stack.pop()
            if top.kind == "map" and top.count % 2:
                return Verdict("unknown", "map literal with an odd number of forms", i)
            if top.kind == "rcond" and (top.count % 2 or top.bad):
                return Verdict("unknown", "malformed reader conditional", i)
            i += 1
            form_done()
            if abort:
                return abort[0]
            continue
        if c in "'`@":
            stack.append(_Prefix(1, kind="sq" if c == "`" else "other"))
            i += 1
            continue
        if c == "~":
            splice = text[i + 1:i + 2] == "@"
            if splice and stack and isinstance(stack[-1], _Prefix) and stack[-1].kind == "sq":
                return Verdict("unknown", "splice directly under a syntax quote", i)
            i += 2 if splice else 1
            stack.append(_Prefix(1))
            continue
        if c == "^":
            # metadata must be a keyword, symbol, map or vector: anything else is a malformed
            # token that the reader may reject before it reaches the end of the input
            nxt = text[i + 1:].lstrip(WS)[:1]
            if nxt and not (nxt.isalpha() or nxt in ":{["):
                return Verdict("unknown", "metadata form of unknown kind", i)
            stack.append(_Prefix(2, kind="meta"))
            i += 1
            continue
        if c == "\\":
            if i + 1 >= n:
                return Verdict("unknown", "backslash at end", i)
            j = i + 2
            while j < n and text[j] not in TERMINATORS:
                j += 1
            if j - (i + 1) != 1:
                return Verdict("unknown", "named/long character literal", i)
            i = j
            form_done(metaable=False)
            if abort:
                return abort[0]
            continue
        if c == "#":
            d = text[i + 1:i + 2]
            if d == "{":
                stack.append(_Coll("}", "set"))
                i += 2
                continue
            if d == "(":
                if any(isinstance(e, _Coll) and e.kind == "fn" for e in stack):
                    return Verdict("unknown", "nested #()", i)
                stack.append(_Coll(")", "fn"))
                i += 2
                continue
            if d == "'" and i + 2 < n and not text[i + 2].isalpha():
                return Verdict("unknown", "var quote not followed by a symbol", i)
            if d == "_" or d == "'":
                stack.append(_Prefix(1, discard=(d == "_")))
                i += 2
                continue
            if text[i + 1:i + 3] == "?(":
                # reader conditional #?(:feature form ...): input ending inside it is incomplete like any list
                stack.append(_Coll(")", "rcond"))
                i += 3
                continue
            return Verdict("unknown", "dispatch #" + d, i)
        # plain atom
        j = i
        while j < n and text[j] not in TERMINATORS:
            j += 1
        tok = text[i:j]
        if not _plain_atom(tok):
            return Verdict("unknown", f"atom {tok!r}", i)
        i = j
        form_done(tok, metaable=not (tok.startswith(":") or tok in ("nil", "true", "false") or tok.lstrip("+-")[:1].isdigit()))
        if abort:
            return abort[0]
    if stack:
        top = stack[-1]
        if isinstance(top, _Prefix):
            if any(isinstance(e, _Prefix) and e.discard for e in stack):
                return Verdict("unknown", "discard macro at end of input", n)
            return Verdict("incomplete", "prefix owes a form", n)
        return Verdict("incomplete", f"open {top.closer}", n)
    return Verdict("complete")


def _plain_atom(tok):
    """atoms whose validity this scanner is sure about: simple words, keywords and integers"""
    if not tok:
        return False
    if tok.isdigit():
        return len(tok) == 1 or tok[0] != "0"
    body = tok[1:] if tok[0] == ":" else tok
    if not body or not body[0].isalpha():
        return False
    return all(ch.isalnum() or ch in "-_" for ch in body) and not body.endswith("-")


# ---- line/column model (independent of the reader's StreamReader) ------------------------------

def offsets(text):
    """-> dict (line, col) -> offset for every character position and for EOF; line from 1, col from 0;
    a new line starts after "\\n" and after a "\\r" that is not followed by "\\n" """
    out = {}
    line, col = 1, 0
    for i, ch in enumerate(text):
        out[(line, col)] = i
        nxt = text[i + 1:i + 2]
        if ch == "\n" or (ch == "\r" and nxt != "\n"):
            line, col = line + 1, 0
        else:
            col += 1
    out[(line, col)] = len(text)
    return out
